"""System-level monitor shared by C01 / C03 / C09 / C12 / C15: histories of file edits, flag / language / output-path /
environment changes, storage faults, server restarts and compile requests through the real `sccache` + gcc / clang,
each request compared with a direct run of the identical command line (exit status, stdout, stderr, bytes and mode of
the output) and classified hit / miss from the statistics and a compiler invocation log, against the L0 prediction
("identical successful request seen before and not evicted => hit without running the compiler")."""
import os, random, shutil, subprocess, json, time
from syslib import *

SRC = '''#include "h1.h"
#include <h2.h>
int {fn}(int x) {{ return x * A + B + {k}; }}
'''

# deviations of the unchanged tree that have their own kinds (known findings F-C01-d, F-C01-e); they must not crowd out other failures
KNOWN_DEVIATIONS = ('output_mode_masked_by_server_umask', 'clangxx_c_input_warning_dropped')

class World:
    def __init__(self, root, tag, compiler, rng, sc_env=None, direct_mode=True):
        self.root = root; self.rng = rng
        shutil.rmtree(root, ignore_errors=True); os.makedirs(root)
        self.w = os.path.join(root, 'w'); os.makedirs(self.w); os.makedirs(os.path.join(self.w, 'inc2')); os.makedirs(os.path.join(self.w, 'inc1')); os.makedirs(os.path.join(self.w, 'o1')); os.makedirs(os.path.join(self.w, 'o2'))
        self.log = os.path.join(root, 'cc.log')
        # one multicall wrapper script reached through two driver names (gcc / g++, clang / clang++), as the real drivers are
        # symbolic links to one binary: it logs real compilations and execs the real driver of the name it was called by
        base = os.path.basename(compiler); alt = {'gcc': 'g++', 'clang': 'clang++'}.get(base, base)
        bindir = os.path.join(root, 'bin'); os.makedirs(bindir)
        multi = os.path.join(bindir, 'multicall-driver')
        with open(multi, 'w') as f:
            f.write('#!/bin/sh\ncase " $* " in *" -E "*|*" -v "*|*" --version "*|*" -vV "*|*" -dumpversion "*) ;; *) echo "$$ $*" >> %s ;; esac\nexec %s/$(basename "$0") "$@"\n' % (self.log, os.path.dirname(compiler)))
        os.chmod(multi, 0o755)
        self.cc = os.path.join(bindir, base); self.cc_alt = os.path.join(bindir, alt)
        for p_ in {self.cc, self.cc_alt}: os.symlink('multicall-driver', p_)
        self.cur = self.cc
        env = {'SCCACHE_DIRECT': 'true' if direct_mode else 'false'}
        if sc_env: env.update(sc_env)
        self.sc = Sc(os.path.join(root, 'sc'), tag, env=env)
        self.files = {'h1.h': '#define A 3\n', 'inc1/h2.h': '#define B 4\n', 'inc2/h2.h': '#define B 40\n', 'main.c': SRC.format(fn='f', k=1)}
        for k, v in self.files.items(): self.write(k, v)
        self.flags = ['-O0', '-Iinc1']; self.lang = None; self.out = 'out.o'; self.env = {}
        self.seen = {}            # fingerprint -> True once stored
        self.trace = []; self.fails = []; self.hits = self.misses = 0
        self.keep_outputs = rng.random() < 0.5
        self.snaps = []           # world states whose request was stored (successful miss or hit)
    def write(self, rel, text):
        p = os.path.join(self.w, rel)
        with open(p, 'w') as f: f.write(text)
        self.files[rel] = text
    def _side_paths(self):
        """files in the working directory that are neither inputs nor the object / .dwo: whatever the compiler writes on the side"""
        keep = set(self.files) | {self.out, self.out[:-2] + '.dwo'}
        res = []
        for dp, dn, fn in os.walk(self.w):
            for f in fn:
                rel = os.path.relpath(os.path.join(dp, f), self.w)
                if rel not in keep: res.append(rel)
        return res
    def _side(self):
        # files whose bytes differ between two runs of the same compiler (timings, time stamps) are compared by name only
        return {rel: ('*' if getattr(self, 'side_names_only', False) else hashlib.sha256(open(os.path.join(self.w, rel), 'rb').read()).hexdigest()[:12]) for rel in self._side_paths()}
    def _clear_side(self):
        for rel in self._side_paths():
            try: os.remove(os.path.join(self.w, rel))
            except OSError: pass
    def argv(self):
        a = [self.cur] + self.flags + (['-x', self.lang] if self.lang else []) + ['-c', 'main.c', '-o', self.out]
        return a
    def fingerprint(self):
        inc2 = '-Iinc2' in self.flags
        # a header that uses __TIMESTAMP__ is a different input whenever it has been rewritten (its modification time is part of the text)
        stamp = os.stat(os.path.join(self.w, 'h1.h')).st_mtime_ns if '__TIMESTAMP__' in self.files['h1.h'] else None
        return json.dumps([stamp, os.path.basename(self.cur), self.flags, self.lang, self.files['main.c'], self.files['h1.h'], self.files['inc2/h2.h'] if inc2 else self.files['inc1/h2.h'],
                           self.env.get('SCCACHE_C_CUSTOM_CACHE_BUSTER'), self.out if '-gsplit-dwarf' in self.flags else None] + ([self.files[k] for k in sorted(self.files) if k.endswith(('.rsp', '.lst'))] if any(k.endswith(('.rsp', '.lst')) for k in self.files) else []))
    def request(self, note, expect_cacheable=True, evicted=False):
        argv = self.argv(); out = os.path.join(self.w, self.out)
        env = dict(self.env)
        # a forced re-store of this request (client-side SCCACHE_RECACHE): it must miss, store again, and leave the entry usable
        recache = getattr(self, 'recache_next', False); self.recache_next = False
        if recache: env['SCCACHE_RECACHE'] = '1'
        before = counts(self.sc.stats() or {}) if True else {}
        nlog = loglines(self.log)
        dwo = out[:-2] + '.dwo'
        # outputs left behind by the previous build stay in place (as in a real build tree) in half of the worlds; the direct
        # compile then starts from the same leftover state
        saved = {}; left = {p_: file_state(p_) for p_ in (out, dwo)} if self.keep_outputs else {}
        for p_ in (out, dwo):
            if self.keep_outputs and os.path.isfile(p_): saved[p_] = (open(p_, 'rb').read(), stat.S_IMODE(os.stat(p_).st_mode))
            else:
                try: os.remove(p_)
                except OSError: pass
        self._clear_side()
        try: r = self.sc.compile(argv, self.w, env=env, timeout=getattr(self, 'req_timeout', 120))
        except subprocess.TimeoutExpired:
            self.trace.append(f'{note}: {" ".join(argv[1:])} -> no answer')
            self.fails.append({'kind': 'request_hangs', 'detail': f'[{note}] got no answer within {getattr(self, "req_timeout", 120)} s (the direct compile ends at once)', 'ops': list(self.trace)})
            self.sc.kill(); self.sc.start(); return 'hung'
        got = (r.returncode, r.stdout, r.stderr, file_state(out), file_state(dwo) and file_state(dwo)[0])
        side_got = self._side(); self._clear_side()
        ran = loglines(self.log) - nlog
        after_raw = self.sc.stats()
        if after_raw is None:
            # the server no longer answers a statistics request (it died, or every request now fails inside it): not a hit, not a miss
            self.fails.append({'kind': 'server_stopped_answering', 'detail': f'after [{note}] the server does not answer --show-stats any more', 'ops': list(self.trace) + [f'{note}: {" ".join(argv[1:])}']})
            after = dict(before)
        else: after = counts(after_raw)
        for p_ in (out, dwo):
            try: os.remove(p_)
            except OSError: pass
            if p_ in saved:
                with open(p_, 'wb') as f: f.write(saved[p_][0])
                os.chmod(p_, saved[p_][1])
        d = subprocess.run(argv, cwd=self.w, env=dict(os.environ, **env), capture_output=True)
        want = (d.returncode, d.stdout, d.stderr, file_state(out), file_state(dwo) and file_state(dwo)[0])
        side_want = self._side(); self._clear_side()
        if want[0] != 0 and left:
            # a failing request produces no output file on either side; what happens to a *stale* file left at the output path by
            # an earlier build differs (sccache removes it, gcc/clang leave it) and is not part of the statement (DESIGN §9):
            # an absent or unchanged leftover counts as "no output"
            def nz(x, l): return None if (x is None or x == l) else x
            got = got[:3] + (nz(got[3], left.get(out)), nz(got[4], left.get(dwo) and left[dwo][0]))
            want = want[:3] + (nz(want[3], left.get(out)), nz(want[4], left.get(dwo) and left[dwo][0]))
        dh = after.get('cache_hits', 0) - before.get('cache_hits', 0); dm = after.get('cache_misses', 0) - before.get('cache_misses', 0)
        cls = 'hit' if dh else ('miss' if dm else 'other')
        self.hits += dh; self.misses += dm
        fp = self.fingerprint()
        line = f'{note}: {" ".join(argv[1:])} env={env} -> rc={got[0]} {cls} ran_compiler={ran}'
        self.trace.append(line)
        if got != want:
            what = [n for n, a, b in zip(('exit status', 'stdout', 'stderr', 'output file', '.dwo file'), got, want) if a != b]
            # two deviations of the unchanged tree are told apart from everything else and reported under their own kinds (known findings):
            #   F-C01-d  bytes equal, permission bits = the direct ones masked by the daemonized server's umask 027
            #   F-C01-e  clang++ given a .c file: sccache passes `-x c++` itself, so the driver's "treating 'c' input as 'c++'" warning is not reproduced
            if 'output file' in what and got[3] and want[3] and got[3][0] == want[3][0] and got[3][1] == want[3][1] & ~0o027:
                self.fails.append({'kind': 'output_mode_masked_by_server_umask', 'detail': f'mode {got[3][1]:o} instead of {want[3][1]:o} ({cls})', 'ops': list(self.trace)})
                what.remove('output file')
            if 'output file' in what and got[3] and want[3] and got[3][0] == want[3][0] and got[3][1] != want[3][1] and getattr(self, 'entry_byte_flipped', False):
                #   F-C09-c  a byte of a result entry was flipped behind the server: the permission bits of a member live in the zip directory, outside
                #            every checksum — the entry still verifies and the object is restored with the damaged mode (bytes equal)
                self.fails.append({'kind': 'output_mode_from_damaged_entry', 'detail': f'one byte of a result entry flipped: object restored with mode {got[3][1]:o}, the direct compile creates {want[3][1]:o} (bytes equal, {cls})', 'ops': list(self.trace)})
                what.remove('output file')
            warn = b"treating 'c' input as 'c++' when in C++ mode"
            if 'stderr' in what and warn in want[2] and warn not in got[2] and b'\n'.join(l for l in want[2].split(b'\n') if warn not in l) == got[2]:
                self.fails.append({'kind': 'clangxx_c_input_warning_dropped', 'detail': f'the direct compile prints the driver warning "treating \'c\' input as \'c++\'", the wrapped one does not ({cls})', 'ops': list(self.trace)})
                what.remove('stderr')
            if what:
                short = lambda t: (t[3] and (t[3][0][:8], oct(t[3][1])), t[4] and t[4][:8])
                self.fails.append({'kind': 'differs_from_direct', 'detail': f'{"/".join(what)} differ from the direct compile after [{note}] ({cls})', 'ops': list(self.trace) + [f'wrapped: rc={got[0]} object/.dwo {short(got)}; direct: rc={want[0]} object/.dwo {short(want)}; leftover outputs kept: {sorted(os.path.basename(k) for k in saved)}']})
        if side_got != side_want and want[0] == 0 and got[0] == 0:
            names = sorted(set(side_got) ^ set(side_want)) or sorted(k for k in side_got if side_got[k] != side_want.get(k))
            self.fails.append({'kind': 'side_output_differs', 'detail': f'files written next to the object differ from the direct compile after [{note}] ({cls}): {names[:4]} (wrapped has {sorted(side_got)}, direct has {sorted(side_want)})', 'ops': list(self.trace)})
        if expect_cacheable and want[0] == 0:
            if after.get('non_cacheable_compilations', 0) > before.get('non_cacheable_compilations', 0):
                # the compile succeeded and its outputs are ordinary files, yet the server decided not to store the result: every repeat would compile again
                self.fails.append({'kind': 'result_not_stored', 'detail': f'[{note}] compiled successfully but was counted as a non-cacheable compilation: nothing was stored for the identical request to hit', 'ops': list(self.trace)})
            if fp in self.seen and not evicted and not recache:
                if cls != 'hit' or ran != 0:
                    self.fails.append({'kind': 'repeat_not_hit', 'detail': f'identical successful request was stored earlier but [{note}] was classified {cls}, compiler ran {ran}x', 'ops': list(self.trace)})
            # a miss whose store failed (the server counted a cache write error: e.g. a directory sits where the entry belongs) has stored nothing
            stored = cls == 'hit' or (cls == 'miss' and after.get('cache_write_errors', 0) == before.get('cache_write_errors', 0))
            if not stored: self.seen.pop(fp, None)
            if stored:
                self.seen[fp] = True
                if len(self.snaps) < 40: self.snaps.append((dict(self.files), list(self.flags), self.lang, self.out, dict(self.env)))
        if cls == 'hit' and ran != 0:
            self.fails.append({'kind': 'hit_ran_compiler', 'detail': f'[{note}] counted as a hit but the compiler ran', 'ops': list(self.trace)})
        return cls
    def revisit(self, snap):
        files, self.flags, self.lang, self.out, self.env = snap[0], list(snap[1]), snap[2], snap[3], dict(snap[4])
        for k, v in files.items():
            if self.files.get(k) != v:
                if '__TIMESTAMP__' in v:
                    # a re-written __TIMESTAMP__ header is a new text (its modification time is part of it): it gets a size of its own, like every
                    # other version of such a header (F-C04-b is not what these histories are about)
                    self.h1_edits = getattr(self, 'h1_edits', 0) + 1; v = v.split('/*')[0] + '/*' + 'x' * self.h1_edits + '*/\n'
                self.write(k, v)
    def restart(self):
        self.sc.stop(); self.sc.start(); self.trace.append('restart server')

def mutate(w, rng):
    """one random edit of the world; returns a note"""
    k = rng.randrange(22)
    if k >= 20: w.cur = w.cc_alt if w.cur == w.cc else w.cc; return 'switch driver name (%s)' % os.path.basename(w.cur)
    if k >= 18: w.recache_next = True; return 'no change, forced re-store (SCCACHE_RECACHE)'
    if k == 0: w.write('main.c', SRC.format(fn='f', k=rng.randrange(1, 9))); return 'edit source (same size)'
    if k == 1: w.write('main.c', SRC.format(fn='f', k=rng.randrange(10, 999)) + '/* pad */\n' * rng.randrange(3)); return 'edit source (size change)'
    stamp = 'static const char *const h1_stamp = __TIMESTAMP__;\n' if '__TIMESTAMP__' in w.files['h1.h'] else ''      # a header that uses __TIMESTAMP__ keeps doing so
    if k == 2:
        if stamp:
            # every version of a header that uses __TIMESTAMP__ gets a size of its own: a same-size edit within one second of the
            # previous compile is the open finding F-C04-b of C04 (never content-compared), which these histories are not about
            w.h1_edits = getattr(w, 'h1_edits', 0) + 1
            w.write('h1.h', '#define A %d\n' % rng.randrange(1, 9) + stamp + '/*' + 'x' * w.h1_edits + '*/\n'); return 'edit header h1 (uses __TIMESTAMP__, new size)'
        w.write('h1.h', '#define A %d\n' % rng.randrange(1, 9)); return 'edit header h1 (same size)'
    if k == 3: w.write('inc1/h2.h', '#define B %d\n' % rng.randrange(10, 9999)); return 'edit header inc1/h2'
    if k == 4:
        w.write('main.c', SRC.format(fn='f', k=1)); w.write('inc1/h2.h', '#define B 4\n')
        if stamp:
            # (a re-written __TIMESTAMP__ header has a new modification time, i.e. a new text: it gets a new size as well, see above)
            w.h1_edits = getattr(w, 'h1_edits', 0) + 1
            w.write('h1.h', '#define A 3\n' + stamp + '/*' + 'x' * w.h1_edits + '*/\n')
        else: w.write('h1.h', '#define A 3\n')
        return 'revert all files'
    if k == 5: w.flags = [f for f in w.flags if not f.startswith('-DX')] + ['-DX=%d' % rng.randrange(3)]; return 'change define'
    if k == 6: w.flags = [f for f in w.flags if not f.startswith('-O')] + [rng.choice(['-O0', '-O1', '-O2'])]; return 'change optimisation'
    if k == 7: w.flags = [f for f in w.flags if not f.startswith('-Iinc')] + ['-Iinc1' if '-Iinc2' in w.flags else '-Iinc2']; return 'switch include path'
    if k == 8: w.lang = rng.choice([None, 'c', 'c++']); return 'change language'
    if k == 9: w.out = rng.choice(['out.o', 'other.o', 'o1/out.o', 'o2/out.o']); return 'change output path'
    if k == 10: w.env = dict(w.env, UNRELATED_VAR=str(rng.randrange(99))); return 'change unrelated env'
    if k == 11: w.env = dict(w.env, SCCACHE_C_CUSTOM_CACHE_BUSTER=str(rng.randrange(3))); return 'change cache-buster env'
    if k == 12: w.write('main.c', 'int f(int x) { return }\n'); return 'break the source'
    if k == 13: w.write('h1.h', '#define A 3\n' + stamp + '#error boom\n'); return 'break a header (#error)'
    if k == 14: w.restart(); return 'restart'
    if k == 15:
        if '-gsplit-dwarf' in w.flags: w.flags = [f for f in w.flags if f not in ('-g', '-gsplit-dwarf')]; return 'drop -gsplit-dwarf'
        # without -g clang writes no .dwo at all (gcc 12 still does): an optional output that is legitimately absent
        if rng.random() < 0.4: w.flags = w.flags + ['-gsplit-dwarf']; return 'add -gsplit-dwarf without -g'
        w.flags = w.flags + ['-g', '-gsplit-dwarf']; return 'add -g -gsplit-dwarf'
    if k == 16: w.out = {'o1/out.o': 'o2/out.o', 'o2/out.o': 'o1/out.o'}.get(w.out, 'o1/out.o'); return 'same output name in another directory'
    return 'no change'

def run_histories(root, tag, compiler, seed, n_hist, n_req, direct_mode=True, sc_env=None):
    rng = random.Random(seed); fails = []; reqs = hits = misses = 0; samples = []
    for h in range(n_hist):
        w = World(os.path.join(root, f'h{h}'), f'{tag}{h}', compiler, rng, sc_env=sc_env, direct_mode=direct_mode)
        w.sc.start()
        try:
            w.request('first')
            for i in range(n_req - 1):
                note = mutate(w, rng)
                w.request(note)
            reqs += n_req; hits += w.hits; misses += w.misses
            fails += [f for f in w.fails if f['kind'] not in KNOWN_DEVIATIONS][:2] + [f for f in w.fails if f['kind'] == 'output_mode_masked_by_server_umask'][:1] + [f for f in w.fails if f['kind'] == 'clangxx_c_input_warning_dropped'][:1]
            if len(samples) < 2: samples.append(' ; '.join(w.trace[:6]))
        finally:
            w.sc.stop()
            shutil.rmtree(w.root, ignore_errors=True)
    return {'requests': reqs, 'hits': hits, 'misses': misses, 'fails': fails, 'samples': samples}

# ------------------------------------------------------------------------------------------------ storage faults (C09)
def inject_fault(w, rng):
    """damage the cache behind the server's back; returns a note. Afterwards nothing is expected to hit."""
    files = []
    for r, _, fs in os.walk(w.sc.cache):
        for f in fs: files.append(os.path.join(r, f))
    k = rng.randrange(8)
    w.seen.clear()
    if not files or k == 7:
        if k == 7 and os.path.isdir(w.sc.cache):
            shutil.rmtree(w.sc.cache, ignore_errors=True); w.nohit = True; return 'fault: cache directory removed'
        return 'fault: none (empty cache)'
    f = rng.choice(files); rel = os.path.relpath(f, w.sc.cache); kind = 'preprocessor entry' if rel.startswith('preprocessor') else 'result entry'
    if k in (0, 1): open(f, 'w').close(); return f'fault: {kind} truncated to 0'
    if k == 2:
        b = open(f, 'rb').read(); open(f, 'wb').write(b[:len(b) // 2]); return f'fault: {kind} truncated to half'
    if k == 3: open(f, 'wb').write(b'\x00garbage' * 20); return f'fault: {kind} overwritten with garbage'
    if k == 4: os.remove(f); return f'fault: {kind} deleted'
    if k == 5: os.remove(f); os.mkdir(f); return f'fault: {kind} replaced by a directory'
    b = bytearray(open(f, 'rb').read())
    if b: b[rng.randrange(len(b))] ^= 0x41
    open(f, 'wb').write(bytes(b))
    if kind == 'result entry': w.entry_byte_flipped = True
    return f'fault: one byte of a {kind} flipped'

def run_fault_histories(root, tag, compiler, seed, n_hist, n_req, sc_env=None):
    rng = random.Random(seed); fails = []; reqs = 0; kinds = {}; samples = []
    for h in range(n_hist):
        env = dict(sc_env or {})
        if h % 3 == 2: env['SCCACHE_CACHE_SIZE'] = '2K'      # tiny size limit: most stores are refused or evict at once
        w = World(os.path.join(root, f'f{h}'), f'{tag}f{h}', compiler, rng, sc_env=env, direct_mode=(h % 2 == 0))
        w.sc.start()
        try:
            w.request('first'); w.request('again')
            for i in range(n_req):
                if rng.random() < 0.5:
                    note = inject_fault(w, rng); kinds[note] = kinds.get(note, 0) + 1; w.trace.append(note)
                    if rng.random() < 0.3: w.restart()
                else: note = mutate(w, rng); w.seen.clear() if 'SCCACHE_CACHE_SIZE' in env else None
                # once the cache directory itself is gone, stores keep failing for this server: only correctness is expected
                w.request(note, evicted=('SCCACHE_CACHE_SIZE' in env) or getattr(w, 'nohit', False))
                if note.startswith('fault') and rng.random() < 0.6:
                    # the request after a fault has compiled and stored again (unless the store itself failed): the identical request must hit now —
                    # a damaged entry is replaced, not kept
                    w.request('repeat after the fault', evicted=('SCCACHE_CACHE_SIZE' in env) or getattr(w, 'nohit', False)); reqs += 1
            reqs += n_req + 2
            fails += [f for f in w.fails if f['kind'] not in KNOWN_DEVIATIONS][:2]
            if len(samples) < 2: samples.append(' ; '.join(w.trace[-6:]))
        finally:
            w.sc.stop(); shutil.rmtree(w.root, ignore_errors=True)
    return {'requests': reqs, 'fault_kinds': kinds, 'fails': fails, 'samples': samples}

def run_mode_flip(root, tag, compiler):
    """deterministic witness of F-C09-c: one bit of the permission bits the zip directory records for the object is flipped behind the server"""
    w = World(os.path.join(root, 'modeflip'), tag + 'mf', compiler, random.Random(1), direct_mode=False)
    w.sc.start(); done = False
    try:
        w.request('first'); w.sc.stop()
        for dp, _, fs in os.walk(w.sc.cache):
            for f in fs:
                p = os.path.join(dp, f)
                if '/preprocessor/' in p or done: continue
                b = bytearray(open(p, 'rb').read()); i = b.find(b'PK\x01\x02')
                while i >= 0:
                    n = int.from_bytes(b[i + 28:i + 30], 'little')
                    if bytes(b[i + 46:i + 46 + n]) == b'obj':
                        b[i + 40] ^= 0x80; open(p, 'wb').write(bytes(b)); done = True; w.entry_byte_flipped = True
                        w.trace.append(f'fault: one bit of the mode the zip directory records for member obj flipped in {os.path.relpath(p, w.sc.cache)}'); break
                    i = b.find(b'PK\x01\x02', i + 4)
        w.sc.start()
        if done: w.request('fault: one byte of a result entry flipped (the permission bits of the object)')
        return {'requests': 2, 'flipped': done, 'fails': [f for f in w.fails if f['kind'] not in KNOWN_DEVIATIONS][:2], 'samples': [' ; '.join(w.trace[-3:])]}
    finally:
        w.sc.stop(); shutil.rmtree(w.root, ignore_errors=True)

# ------------------------------------------------------------------------------------------------ read-only cache (C15)
def run_readonly(root, tag, compiler, seed, n_hist, n_req, oversize=False, damage=True, conf='env'):
    rng = random.Random(seed); fails = []; reqs = hits = 0; entries = 0; samples = []
    for h in range(n_hist):
        direct = (h % 2 == 0)
        w = World(os.path.join(root, f'r{h}'), f'{tag}r{h}', compiler, rng, direct_mode=direct)
        if conf == 'rw_mode_only':
            # the only disk-cache variable in the environment will be SCCACHE_LOCAL_RW_MODE: cache at its default location (below a private XDG_CACHE_HOME)
            for k in ('SCCACHE_DIR', 'SCCACHE_DIRECT', 'SCCACHE_CACHE_SIZE'): w.sc.env.pop(k, None)
            w.sc.env['XDG_CACHE_HOME'] = os.path.join(w.root, 'xdg'); w.sc.env['HOME'] = os.path.join(w.root, 'home'); os.makedirs(w.sc.env['HOME'], exist_ok=True)
            w.sc.cache = os.path.join(w.root, 'xdg', 'sccache')
        elif conf in ('file', 'file_env_dir'):
            w.sc.env.pop('SCCACHE_DIRECT', None); w.sc.use_config({'use_preprocessor_cache_mode': direct})
        if h % 2 == 0 and not oversize:
            # a header whose text depends on its own modification time: preprocessor-cache entries that mention it are rewritten when they
            # are looked up, which a read-only cache refuses — the request must still be served (by preprocessing)
            w.write('h1.h', '#define A 3\nstatic const char *const h1_stamp = __TIMESTAMP__;\n'); w.trace.append('--- h1.h uses __TIMESTAMP__')
        w.trace.append(f'--- configuration variant {conf}: cache directory {os.path.relpath(w.sc.cache, w.root)}')
        w.sc.start()
        try:
            # populate read-write
            w.request('populate 1')
            for i in range(5): w.request('populate: ' + mutate(w, rng))
            w.sc.stop()
            damaged = 0
            if damage and h % 2 == 1:
                # a shared read-only cache can hold entries cut short by an interrupted copy: they are part of the pre-populated state
                files = sorted(os.path.join(dp, f) for dp, _, fs in os.walk(w.sc.cache) for f in fs)
                for f in [f for f in files if rng.random() < 0.6] or files[:1]:
                    size = os.path.getsize(f); how = rng.randrange(3)
                    with open(f, 'r+b') as fh:
                        if how == 0: fh.truncate(size // 2)
                        elif how == 1: fh.truncate(0)
                        else: fh.seek(0); fh.write(bytes(rng.randrange(256) for _ in range(min(size, 64))))
                    damaged += 1; w.trace.append(f'--- damaged {os.path.relpath(f, w.sc.cache)} ({("cut in half", "emptied", "first 64 bytes overwritten")[how]})')
            before = listing(w.sc.cache); entries += len(before)
            ro_env = {'SCCACHE_LOCAL_RW_MODE': 'READ_ONLY'}
            if oversize == 'tight':
                # a limit that everything in the directory fits into, with little to spare (1.25 x): nothing may go, whatever share of the limit a part of the cache is given
                total = sum(os.path.getsize(os.path.join(dp, f)) for dp, _, fs in os.walk(w.sc.cache) for f in fs)
                ro_env['SCCACHE_CACHE_SIZE'] = str(int(total * 1.25) + 1)
            elif oversize: ro_env['SCCACHE_CACHE_SIZE'] = '1K'
            if h % 3 == 2: ro_env['SCCACHE_RECACHE'] = '1'
            if conf in ('file', 'file_env_dir'):
                # the config-file spelling of read-only mode
                ro_env.pop('SCCACHE_LOCAL_RW_MODE')
                # F-C15-b: the same cache directory named by SCCACHE_DIR as well (the environment section replaces the file's)
                if conf == 'file_env_dir': ro_env['SCCACHE_DIR'] = w.sc.cache
                cf = w.sc.env['SCCACHE_CONF']; t = open(cf).read().replace('size = 10737418240\n', 'size = 10737418240\nrw_mode = "READ_ONLY"\n'); open(cf, 'w').write(t)
                if oversize: ro_env = {}
            w.sc.env.update(ro_env); w.sc.start(); w.trace.append(f'--- server restarted read-only ({conf}) {ro_env}')
            h0 = w.hits
            recache = 'SCCACHE_RECACHE' in ro_env
            harness_removed = set()
            for i in range(n_req):
                if oversize and i == 2:
                    # some result entries vanish behind the server (another process cleaning up a shared directory): looking them up is a miss, and
                    # whatever the server does to recover must not cost the read-only cache any *other* entry
                    res_files = sorted(k for k in listing(w.sc.cache) if not k.startswith('preprocessor'))
                    for k in res_files[::2]:
                        os.remove(os.path.join(w.sc.cache, k)); harness_removed.add(k)
                    w.trace.append(f'--- {len(harness_removed)} of {len(res_files)} result entries deleted behind the server')
                    w.seen.clear()       # which states lost their entry is not tracked: no hit is demanded from here on, only correct results and an untouched rest
                    for snap in list(w.snaps)[:8]:
                        w.revisit(snap); w.request('revisit a populated state after the deletion', expect_cacheable=False)
                x = rng.random() if i > 0 else 0.9        # the first request after the restart repeats the last populated state as it is
                if x < 0.4 and w.snaps: w.revisit(rng.choice(w.snaps)); note = 'revisit a populated state'
                elif x < 0.8: note = mutate(w, rng)
                else: note = 'repeat'
                if note == 'restart': w.trace.append('(restart keeps the read-only environment)')
                # in read-only mode nothing new is ever stored: only what was populated can hit
                fp = w.fingerprint(); known = fp in w.seen
                # (variant file_env_dir: by F-C15-b the file's section — preprocessor-cache options included — is dropped in the second phase; with the
                #  mode flipped the preprocessed text has other line markers and the populated entries are not found: no hit is expected there)
                w.request(note, expect_cacheable=(known and not recache and not damaged and conf != 'file_env_dir'))
                if not known: w.seen.pop(fp, None)
            w.sc.stop()
            after = listing(w.sc.cache)
            added = sorted(set(after) - set(before)); removed = sorted(set(before) - set(after) - harness_removed); changed = sorted(k for k in before if k in after and before[k] != after[k])
            if added or removed or changed:
                fails.append({'kind': 'readonly_cache_modified' + ('_tight' if oversize == 'tight' else '_oversize' if oversize else '') + ('_file_mode_with_env_dir' if conf == 'file_env_dir' else ''), 'detail': f'added={added[:3]} removed={removed[:3]} changed={changed[:3]} (entries before {len(before)}, after {len(after)})', 'ops': list(w.trace)})
            reqs += n_req; hits += w.hits - h0
            fails += [f for f in w.fails if f['kind'] not in KNOWN_DEVIATIONS][:2]
            if len(samples) < 2: samples.append(' ; '.join(w.trace[-5:]))
        finally:
            w.sc.stop(); shutil.rmtree(w.root, ignore_errors=True)
    return {'requests': reqs, 'hits_served_readonly': hits, 'entries_checked': entries, 'fails': fails, 'samples': samples}

# ------------------------------------------------------------------------------------------------ compiler swaps (C12)
def run_swap_histories(root, tag, seed, n_hist, n_req):
    """the file at the compiler path is swapped among wrapper compilers without restarting the server; every request must equal a
    direct run of the wrapper then at the path.  The wrappers differ in what they add behind sccache's back: in even histories a
    macro (-DWRAP=k: the preprocessed text differs, too), in odd ones only the optimisation level (-O0/-O1/-O2: same preprocessed
    text, so the compiler's digest is the only component of the key that tells them apart)"""
    rng = random.Random(seed); fails = []; reqs = swaps = hits = 0; samples = []
    for h in range(n_hist):
        d = os.path.join(root, f'sw{h}'); shutil.rmtree(d, ignore_errors=True); w = os.path.join(d, 'w'); os.makedirs(w); os.makedirs(os.path.join(d, 'bin')); os.makedirs(os.path.join(d, 'variants'))
        by_opt = (h % 4 >= 2)
        open(os.path.join(w, 'main.c'), 'w').write('int f(int n) { int s = 0; for (int i = 0; i < n; i++) s += i * 3; return s; }\n' if by_opt else 'int f(void) { return WRAP; }\n')
        cc = os.path.join(d, 'bin', 'gcc'); use_symlink = (h % 2 == 1)
        for k in range(3):
            v = os.path.join(d, 'variants', f'gcc{k}')
            open(v, 'w').write(f'#!/bin/sh\n# variant {k}\nexec /usr/bin/gcc ' + (f'-O{k}' if by_opt else f'-DWRAP={k}') + ' "$@"\n'); os.chmod(v, 0o755)
            os.utime(v, (1_600_000_000 + k * 10, 1_600_000_000 + k * 10))
        tick = [100]
        def install(k):
            tick[0] += 1
            if use_symlink:
                t = cc + '.new'
                if os.path.lexists(t): os.remove(t)
                os.symlink(os.path.join(d, 'variants', f'gcc{k}'), t); os.rename(t, cc)
            else:
                t = cc + '.new'; shutil.copy(os.path.join(d, 'variants', f'gcc{k}'), t); os.chmod(t, 0o755)
                os.utime(t, (1_600_000_000 + tick[0], 1_600_000_000 + tick[0])); os.rename(t, cc)      # different contents *and* modification time
        sc = Sc(os.path.join(d, 'sc'), f'{tag}{h}'); sc.start(); trace = []; cur = rng.randrange(3); install(cur)
        try:
            for i in range(n_req):
                if rng.random() < 0.5:
                    cur = rng.randrange(3); install(cur); swaps += 1; trace.append(f'install variant {cur}' + (' (symlink retarget)' if use_symlink else ''))
                out = os.path.join(w, 'out.o')
                for p in (out,):
                    try: os.remove(p)
                    except OSError: pass
                b = counts(sc.stats() or {})
                r = sc.compile([cc, '-c', 'main.c', '-o', 'out.o'], w); got = (r.returncode, file_state(out) and file_state(out)[0])
                a = counts(sc.stats() or {}); cls = 'hit' if a.get('cache_hits', 0) > b.get('cache_hits', 0) else 'miss'
                hits += cls == 'hit'
                os.remove(out) if os.path.exists(out) else None
                dr = subprocess.run([cc, '-c', 'main.c', '-o', 'out.o'], cwd=w, capture_output=True); want = (dr.returncode, file_state(out) and file_state(out)[0])
                trace.append(f'request with variant {cur} at the path -> rc={got[0]} {cls}'); reqs += 1
                if got != want:
                    fails.append({'kind': 'stale_compiler_result', 'detail': f'request {i}: result differs from a direct run of the compiler now at the path (variant {cur}), classified {cls}', 'ops': list(trace)}); break
            if len(samples) < 2: samples.append(' ; '.join(trace[:8]))
        finally:
            sc.stop(); shutil.rmtree(d, ignore_errors=True)
    return {'requests': reqs, 'swaps': swaps, 'hits': hits, 'fails': fails, 'samples': samples}

def run_swap_during_detection(root, tag, size_gb=1.5):
    """the binary at the compiler path is replaced *while* the server is reading (hashing) the previous one: whatever the server
    remembers about the path afterwards must not be the old binary's identity under the new binary's modification time.
    Wrapper A (-O0) is padded with a sparse tail so that hashing it takes about a second; wrapper B (-O2) is renamed over the path
    as soon as /proc/<server>/fd shows A open.  The request in flight during the swap is not compared (its own outcome is a race
    of the build, not of the memo); the requests after it must equal direct runs of B."""
    import threading
    d = os.path.join(root, 'swdet'); shutil.rmtree(d, ignore_errors=True); w = os.path.join(d, 'w'); os.makedirs(w); os.makedirs(os.path.join(d, 'bin'))
    open(os.path.join(w, 'main.c'), 'w').write('int f(int n) { int s = 0; for (int i = 0; i < n; i++) s += i * 3; return s; }\n')
    cc = os.path.join(d, 'bin', 'gcc'); fails = []; trace = []; reqs = 0; exercised = False
    def variant(name, opt, pad):
        p_ = os.path.join(d, name)
        with open(p_, 'w') as f: f.write(f'#!/bin/sh\nexec /usr/bin/gcc -O{opt} "$@"\nexit 1\n')
        if pad:
            with open(p_, 'r+b') as f: f.truncate(int(pad * (1 << 30)))
        os.chmod(p_, 0o755); return p_
    a = variant('gccA', 0, size_gb); b = variant('gccB', 2, 0)
    def install(src, t):
        tmp = cc + '.new'
        if os.path.lexists(tmp): os.remove(tmp)
        if src == a: os.link(src, tmp)          # the padded file is not copied
        else: shutil.copy(src, tmp); os.chmod(tmp, 0o755)
        os.utime(tmp, (t, t)); os.rename(tmp, cc)
    sc = Sc(os.path.join(d, 'sc'), tag); sc.start()
    def request(note, compare=True):
        nonlocal reqs
        out = os.path.join(w, 'out.o')
        if os.path.exists(out): os.remove(out)
        r = sc.compile([cc, '-c', 'main.c', '-o', 'out.o'], w, timeout=300); got = (r.returncode, file_state(out) and file_state(out)[0]); reqs += 1
        if os.path.exists(out): os.remove(out)
        if not compare: trace.append(f'{note} -> rc={got[0]} (not compared)'); return
        dr = subprocess.run([cc, '-c', 'main.c', '-o', 'out.o'], cwd=w, capture_output=True); want = (dr.returncode, file_state(out) and file_state(out)[0])
        trace.append(f'{note} -> rc={got[0]} object {got[1] and got[1][:8]} (direct: {want[1] and want[1][:8]})')
        if got != want: fails.append({'kind': 'stale_compiler_result', 'detail': f'[{note}]: result differs from a direct run of the compiler now at the path (the server kept the identity of the binary it was hashing when the path was replaced)', 'ops': list(trace)})
    try:
        install(a, 1_600_000_000); request('wrapper A (-O0, padded) at the path: first request')
        install(a, 1_600_000_100); trace.append('wrapper A reinstalled with a new modification time')
        pids = sc.server_pids(); th = threading.Thread(target=request, args=('request while A is being identified again; wrapper B (-O2) renamed over the path as soon as the server has A open', False)); th.start()
        end = time.time() + 60; ino = os.stat(a).st_ino
        while time.time() < end and th.is_alive() and not exercised:
            for p_ in pids:
                try:
                    for fd in os.listdir(f'/proc/{p_}/fd'):
                        try:
                            if os.stat(f'/proc/{p_}/fd/{fd}').st_ino == ino: exercised = True; break
                        except OSError: pass
                except OSError: pass
            if not exercised: time.sleep(0.002)
        if exercised: install(b, 1_600_000_200); trace.append('wrapper B installed (rename over the path) while the server was reading A')
        th.join()
        if exercised:
            for i in range(3): request(f'wrapper B at the path: request {i + 1} after the swap')
    finally:
        sc.stop(); shutil.rmtree(d, ignore_errors=True)
    return {'requests': reqs, 'swap_landed_during_detection': exercised, 'fails': fails, 'samples': [' ; '.join(trace)[:700]]}

# ------------------------------------------------------------------------------------------------ direct mode under every option combination (C04)
DM_SRC = '#include "h1.h"\n#include <h2.h>\n#include <sys.h>\nint f(int x) { return x * A + B + S + %d; }\n'

def run_direct_mode_histories(root, tag, compiler, seed, n_hist, n_req):
    """preprocessor-cache mode with random option combinations and include directories whose names contain digits and
    spaces; edits of every header (same-size, size-changing, touch-only, delete+recreate, restored mtime), each request
    compared with a direct compile. Edits of the -isystem header are skipped when skip_system_headers is on (documented)."""
    rng = random.Random(seed); fails = []; reqs = hits = 0; samples = []; optcount = {}
    for h in range(n_hist):
        opts = {'use_preprocessor_cache_mode': True, 'file_stat_matches': rng.random() < 0.5, 'use_ctime_for_stat': rng.random() < 0.7,
                'ignore_time_macros': False, 'skip_system_headers': rng.random() < 0.5, 'hash_working_directory': rng.random() < 0.7}
        for k, v in opts.items():
            if v: optcount[k] = optcount.get(k, 0) + 1
        d = os.path.join(root, f'dm{h}'); shutil.rmtree(d, ignore_errors=True); w = os.path.join(d, 'w'); os.makedirs(w)
        incdir = rng.choice(['inc1', 'v3', 'dir 3', 'x3y/sub', 'plain']); sysdir = rng.choice(['sysinc', 'sys3'])
        os.makedirs(os.path.join(w, incdir)); os.makedirs(os.path.join(w, sysdir))
        files = {'h1.h': '#define A 3\n', f'{incdir}/h2.h': '#define B 41\n', f'{sysdir}/sys.h': '#define S 500\n', 'main.c': DM_SRC % 1}
        def write(rel, text, keep_mtime=False):
            p = os.path.join(w, rel); st = os.stat(p) if keep_mtime and os.path.exists(p) else None
            open(p, 'w').write(text); files[rel] = text
            if st: os.utime(p, ns=(st.st_atime_ns, st.st_mtime_ns))
        for k, v in files.items(): write(k, v)
        # headers must be older than the compile start or direct mode is (correctly) not used
        old = time.time() - 3600
        for k in files: os.utime(os.path.join(w, k), (old, old))
        log = os.path.join(d, 'cc.log'); cc = os.path.join(d, 'bin', os.path.basename(compiler)); os.makedirs(os.path.dirname(cc)); wrapper(cc, compiler, log)
        sc = Sc(os.path.join(d, 'sc'), f'{tag}{h}'); sc.use_config(opts); sc.start(); trace = [f'options {opts} include dir {incdir!r} system dir {sysdir!r}']
        argv = [cc, '-O0', f'-I{incdir}', '-isystem', sysdir, '-c', 'main.c', '-o', 'out.o']
        try:
            for i in range(n_req):
                k = rng.randrange(10) if i else 9
                targets = ['h1.h', f'{incdir}/h2.h'] + ([] if opts['skip_system_headers'] else [f'{sysdir}/sys.h'])
                t = rng.choice(targets); macro = {'h1.h': 'A', f'{incdir}/h2.h': 'B', f'{sysdir}/sys.h': 'S'}[t]
                if k == 0: write(t, f'#define {macro} {rng.randrange(10, 99)}\n'); note = f'edit {t} (same size)'
                elif k == 1: write(t, f'#define {macro} {rng.randrange(100, 99999)}\n'); note = f'edit {t} (size change)'
                elif k == 2: os.utime(os.path.join(w, t), None); note = f'touch {t}'
                elif k == 3: txt = files[t]; os.remove(os.path.join(w, t)); write(t, f'#define {macro} {rng.randrange(10, 99)}\n'); note = f'delete and recreate {t}'
                elif k == 4 and opts['use_ctime_for_stat']: write(t, f'#define {macro} {rng.randrange(10, 99)}\n', keep_mtime=True); note = f'edit {t} (same size, mtime restored)'
                elif k == 5: write('main.c', DM_SRC % rng.randrange(9)); note = 'edit source'
                elif k == 6: sc.stop(); sc.start(); note = 'restart'
                else: note = 'no change'
                if k in (0, 1, 3, 4): time.sleep(0.01)
                out = os.path.join(w, 'out.o')
                if os.path.exists(out): os.remove(out)
                b = counts(sc.stats() or {})
                r = sc.compile(argv, w); got = (r.returncode, r.stdout, r.stderr, file_state(out) and file_state(out)[0])
                a = counts(sc.stats() or {}); cls = 'hit' if a.get('cache_hits', 0) > b.get('cache_hits', 0) else 'miss'
                hits += cls == 'hit'
                if os.path.exists(out): os.remove(out)
                dr = subprocess.run(argv, cwd=w, capture_output=True); want = (dr.returncode, dr.stdout, dr.stderr, file_state(out) and file_state(out)[0])
                reqs += 1; trace.append(f'{note} -> rc={got[0]} {cls}')
                if got != want:
                    fails.append({'kind': 'direct_mode_stale_result', 'detail': f'[{note}] result differs from the direct compile ({cls}); options {opts}, include dir {incdir!r}', 'ops': list(trace)}); break
            if len(samples) < 2: samples.append(' ; '.join(trace[:6]))
        finally:
            sc.stop(); shutil.rmtree(d, ignore_errors=True)
    return {'requests': reqs, 'hits': hits, 'options_on': optcount, 'fails': fails, 'samples': samples}

# ------------------------------------------------------------------------------------------------ direct mode: path layouts (scripted, run first)
def run_direct_mode_layouts(root, tag, compiler):
    """include paths that reach the line markers as relative paths with `..`: a parent-directory include dir with a
    *shadow* file of the same relative name below the working directory (F-C04-c, fixed), and `link/../h.h` through a
    symbolic link to a directory elsewhere (F-C04-d).  History: compile, edit the header really included, compile twice;
    every request compared with a direct compile."""
    fails = []; reqs = hits = 0; samples = []
    layouts = {
        'parent_include_dir_with_shadow': dict(files={'pinc/h2.h': '#define B 41\n', 'src/pinc/h2.h': '#define B 9999\n', 'src/main.c': '#include "h2.h"\nint f(void) { return B; }\n'}, links={}, flags=['-I../pinc'], real='pinc/h2.h'),
        'parent_include_two_levels': dict(files={'a/b/h2.h': '#define B 41\n', 'src/sub/b/h2.h': '#define B 9999\n', 'src/sub/main.c': '#include "../../a/b/h2.h"\nint f(void) { return B; }\n', 'src/sub/a/b/h2.h': '#define B 77\n'}, links={}, flags=[], real='a/b/h2.h', cwd='src/sub'),
        'symlink_dir_dotdot': dict(files={'far/h3.h': '#define B 41\n', 'far/deep/x': '', 'src/h3.h': '#define B 9999\n', 'src/main.c': '#include "lnk/../h3.h"\nint f(void) { return B; }\n'}, links={'src/lnk': '../far/deep'}, flags=[], real='far/h3.h'),
    }
    for name, L in layouts.items():
        d = os.path.join(root, 'lay_' + name); shutil.rmtree(d, ignore_errors=True); w = os.path.join(d, 'w')
        for rel, text in L['files'].items():
            os.makedirs(os.path.dirname(os.path.join(w, rel)), exist_ok=True); open(os.path.join(w, rel), 'w').write(text)
        for rel, target in L['links'].items(): os.symlink(target, os.path.join(w, rel))
        old = time.time() - 3600
        for rel in L['files']: os.utime(os.path.join(w, rel), (old, old))
        cwd = os.path.join(w, L.get('cwd', 'src'))
        sc = Sc(os.path.join(d, 'sc'), f'{tag}{name}'); sc.use_config({'use_preprocessor_cache_mode': True}); sc.start()
        argv = [compiler, '-O0'] + L['flags'] + ['-c', 'main.c', '-o', 'out.o']; trace = [f'layout {name}: {sorted(L["files"])} links {L["links"]} cwd {L.get("cwd", "src")} argv {argv[1:]}']
        try:
            time.sleep(1.1)      # the headers' ctime must be older than the start of the first compile
            for step in ('first compile', 'edit ' + L['real'], 'repeat'):
                if step.startswith('edit'):
                    open(os.path.join(w, L['real']), 'w').write('#define B 42\n'); os.utime(os.path.join(w, L['real']), (old, old)); time.sleep(1.1)
                out = os.path.join(cwd, 'out.o')
                if os.path.exists(out): os.remove(out)
                b = counts(sc.stats() or {})
                r = sc.compile(argv, cwd); got = (r.returncode, r.stdout, r.stderr, file_state(out) and file_state(out)[0])
                a = counts(sc.stats() or {}); cls = 'hit' if a.get('cache_hits', 0) > b.get('cache_hits', 0) else 'miss'; hits += cls == 'hit'
                if os.path.exists(out): os.remove(out)
                dr = subprocess.run(argv, cwd=cwd, capture_output=True); want = (dr.returncode, dr.stdout, dr.stderr, file_state(out) and file_state(out)[0])
                reqs += 1; trace.append(f'{step} -> rc={got[0]} {cls}')
                if got != want:
                    fails.append({'kind': 'direct_mode_stale_result', 'detail': f'layout {name}: [{step}] result differs from the direct compile ({cls})', 'ops': list(trace)}); break
            samples.append(' ; '.join(trace))
        finally:
            sc.stop(); shutil.rmtree(d, ignore_errors=True)
    # ---- header search through the environment: the variable the front end in use reads must be part of the manifest key
    driver_cxx = os.path.basename(compiler) in ('g++', 'clang++')
    for src, xflag, var in (('main.cpp', [], 'CPLUS_INCLUDE_PATH'), ('main.c', [], 'CPLUS_INCLUDE_PATH' if driver_cxx else 'C_INCLUDE_PATH'), ('main.c', ['-x', 'c++'], 'CPLUS_INCLUDE_PATH'), ('main.cpp', ['-x', 'c'], 'C_INCLUDE_PATH'), ('main.c', [], 'CPATH')):
        name = f'env_{var}_{src}_{"".join(xflag)}'
        d = os.path.join(root, 'lay_' + name); shutil.rmtree(d, ignore_errors=True); w = os.path.join(d, 'w'); os.makedirs(os.path.join(w, 'incA')); os.makedirs(os.path.join(w, 'incB'))
        open(os.path.join(w, 'incA', 'ver.h'), 'w').write('#define B 41\n'); open(os.path.join(w, 'incB', 'ver.h'), 'w').write('#define B 42\n')
        open(os.path.join(w, src), 'w').write('#include <ver.h>\nint f(void) { return B; }\n')
        old = time.time() - 3600
        for rel in ('incA/ver.h', 'incB/ver.h', src): os.utime(os.path.join(w, rel), (old, old))
        sc = Sc(os.path.join(d, 'sc'), f'{tag}{name}'); sc.use_config({'use_preprocessor_cache_mode': True}); sc.start()
        argv = [compiler, '-O0'] + xflag + ['-c', src, '-o', 'out.o']; trace = [f'layout {name}: <ver.h> found through ${var}; argv {argv[1:]}']
        try:
            time.sleep(1.1)
            for step, val in (('first', 'incA'), ('other directory', 'incB'), ('back', 'incA'), ('other again', 'incB')):
                env = {var: os.path.join(w, val)}
                out = os.path.join(w, 'out.o')
                if os.path.exists(out): os.remove(out)
                b = counts(sc.stats() or {})
                r = sc.compile(argv, w, env=env); got = (r.returncode, r.stdout, r.stderr, file_state(out) and file_state(out)[0])
                a = counts(sc.stats() or {}); cls = 'hit' if a.get('cache_hits', 0) > b.get('cache_hits', 0) else 'miss'; hits += cls == 'hit'
                if os.path.exists(out): os.remove(out)
                dr = subprocess.run(argv, cwd=w, env=dict(os.environ, **env), capture_output=True); want = (dr.returncode, dr.stdout, dr.stderr, file_state(out) and file_state(out)[0])
                reqs += 1; trace.append(f'{step}: {var}={val} -> rc={got[0]} {cls}')
                if got != want:
                    fails.append({'kind': 'direct_mode_stale_result', 'detail': f'layout {name}: [{step}: {var}={val}] result differs from the direct compile ({cls})', 'ops': list(trace)}); break
        finally:
            sc.stop(); shutil.rmtree(d, ignore_errors=True)
    # ---- environment variables that change the *result* (not the header search): with direct mode on, a change must not be answered
    #      from the entry recorded under the other value; switching back must hit.  The source includes a header (a preprocessor-cache
    #      entry is only written when an include was recorded) and provokes a warning (the locale shows in the diagnostics).
    envsets = [('locale', 'LC_ALL', ('C.UTF-8', 'C'))]
    if os.path.basename(compiler) in ('clang', 'clang++'): envsets.append(('ccc_override', 'CCC_OVERRIDE_OPTIONS', ('+-O2', '+-O0')))
    n_env = 0
    for name, var, (v1, v2) in envsets:
        n_env += 1
        d = os.path.join(root, 'lay_env_' + name); shutil.rmtree(d, ignore_errors=True); w = os.path.join(d, 'w'); os.makedirs(w)
        open(os.path.join(w, 'k.h'), 'w').write('#define K 3\n'); open(os.path.join(w, 'main.c'), 'w').write('#include "k.h"\nint f(int n) { int unused; int s = 0; for (int i = 0; i < n; i++) s += i * K; return s; }\n')
        old_t = time.time() - 3600
        for rel in ('k.h', 'main.c'): os.utime(os.path.join(w, rel), (old_t, old_t))
        sc = Sc(os.path.join(d, 'sc'), f'{tag}env{name}'); sc.use_config({'use_preprocessor_cache_mode': True}); sc.start()
        argv = [compiler, '-Wall', '-c', 'main.c', '-o', 'out.o']; trace = [f'layout env_{name}: argv {argv[1:]}, only ${var} changes']
        try:
            time.sleep(1.1)
            for step, val, must_hit in (('first', v1, False), ('other value', v2, False), ('back', v1, True), ('other again', v2, True)):
                env = {var: val}; out = os.path.join(w, 'out.o')
                if os.path.exists(out): os.remove(out)
                b = counts(sc.stats() or {})
                r = sc.compile(argv, w, env=env); got = (r.returncode, r.stdout, r.stderr, file_state(out) and file_state(out)[0])
                a = counts(sc.stats() or {}); cls = 'hit' if a.get('cache_hits', 0) > b.get('cache_hits', 0) else 'miss'; hits += cls == 'hit'
                if os.path.exists(out): os.remove(out)
                dr = subprocess.run(argv, cwd=w, env=dict(os.environ, **env), capture_output=True); want = (dr.returncode, dr.stdout, dr.stderr, file_state(out) and file_state(out)[0])
                reqs += 1; trace.append(f'{step}: {var}={val} -> rc={got[0]} {cls}')
                if got != want:
                    what = [n_ for n_, x, y in zip(('exit status', 'stdout', 'stderr', 'object'), got, want) if x != y]
                    fails.append({'kind': 'direct_mode_stale_result', 'detail': f'layout env_{name}: [{step}: {var}={val}] {"/".join(what)} differ from the direct compile ({cls})', 'ops': list(trace)}); break
                if must_hit and cls != 'hit':
                    fails.append({'kind': 'repeat_not_hit', 'detail': f'layout env_{name}: [{step}: {var}={val}] was stored before but classified {cls}', 'ops': list(trace)}); break
        finally:
            sc.stop(); shutil.rmtree(d, ignore_errors=True)
    return {'requests': reqs, 'hits': hits, 'layouts': len(layouts) + 5 + n_env, 'fails': fails, 'samples': samples[:1]}

# ------------------------------------------------------------------------------------------------ scripted corpus histories (run first)
def _set(attr, val):
    def f(w): setattr(w, attr, val)
    return f
def _flags(add=(), remove=()):
    def f(w): w.flags = [x for x in w.flags if x not in remove] + [x for x in add if x not in w.flags]
    return f
def _src(k):
    def f(w): w.write('main.c', SRC.format(fn='f', k=k))
    return f
CORPUS = {
    # the previous build's object stays at the output path; a reverted source must bring the old object back (sizes are equal)
    'revert_with_output_in_place': [('outputs stay in place; edit source (same size)', [_set('keep_outputs', True), _src(2)]), ('revert source', [_src(1)]), ('edit again', [_src(2)]), ('revert again', [_src(1)])],
    # the object of a -gsplit-dwarf compile names its .dwo companion: the same file name in another directory must not be served from the first
    'split_dwarf_two_output_dirs': [('enable -g -gsplit-dwarf, output o1/out.o', [_flags(add=('-g', '-gsplit-dwarf')), _set('out', 'o1/out.o')]), ('same name in o2', [_set('out', 'o2/out.o')]),
                                    ('back to o1', [_set('out', 'o1/out.o')]), ('plain name', [_set('out', 'out.o')])],
    # -gsplit-dwarf without -g: clang writes no .dwo at all (gcc 12 still does) — an optional output that is legitimately absent; the result is
    # stored all the same and the repeat is a hit
    'split_dwarf_without_g': [('add -gsplit-dwarf (no -g)', [_flags(add=('-gsplit-dwarf',))]), ('repeat', []), ('edit source', [_src(3)]), ('revert source', [_src(1)])],
    'language_then_back': [('as C++', [_set('lang', 'c++')]), ('as C', [_set('lang', 'c')]), ('as C++ again', [_set('lang', 'c++')])],
    'define_then_back': [('-DX=1', [_flags(add=('-DX=1',))]), ('-DX=2', [_flags(add=('-DX=2',), remove=('-DX=1',))]), ('-DX=1 again', [_flags(add=('-DX=1',), remove=('-DX=2',))])],
}

def run_corpus(root, tag, compiler, direct_mode=True):
    fails = []; reqs = 0; samples = []
    for name, script in CORPUS.items():
        w = World(os.path.join(root, 'corpus_' + name), f'{tag}{name}', compiler, random.Random(0), direct_mode=direct_mode)
        w.sc.start()
        try:
            w.request(f'corpus {name}: first')
            for note, actions in script:
                for a in actions: a(w)
                w.request(note); reqs += 1
            fails += [dict(f, detail=f'corpus history {name}: ' + f['detail']) for f in w.fails if f['kind'] not in KNOWN_DEVIATIONS][:2]
            samples.append(' ; '.join(w.trace[:3]))
        finally:
            w.sc.stop(); shutil.rmtree(w.root, ignore_errors=True)
    return {'requests': reqs, 'corpus_histories': len(CORPUS), 'fails': fails, 'samples': samples[:1]}


# ------------------------------------------------------------------------------------------------ response files
RSP_SRC = 'int f(int x) { return x + K; }\n'
def run_rsp(root, tag, compiler):
    """flags delivered through response files (@file): every request is compared with the direct compile as usual.  Scenarios: plain
    (cacheable: repeat must hit, an edit of the file must not be answered from the old entry), nested, and the texts whose meaning for the
    compiler differs from plain white-space splitting — backslash escapes, quotes, NUL, non-ASCII white space — and a file that includes itself."""
    fails = []; reqs = 0; samples = []
    def world(name):
        w = World(os.path.join(root, 'rsp_' + name), f'{tag}rsp{name}', compiler, random.Random(0)); w.write('main.c', RSP_SRC); w.flags = ['-O0', '@flags.rsp']; w.req_timeout = 25; w.sc.start(); return w
    scen = [
        ('plain', [('-DK=5\n', True), ('-DK=5\n', True), ('-DK=6\n', True), ('  -DK=5 \t-DU=1\n', True), ('-DK=5\n', True)]),
        ('nested', [('@more.rsp -DK=2\n', True), ('@more.rsp -DK=2\n', True), ('@more.rsp -DK=3\n', True)]),
        ('backslash', [('-DK=\\7\n', False), ('-DK=\\7\n', False), ('-DK=7\\\n-DU=1\n', False)]),
        ('quotes', [("'-DK=1 + 2'\n", False), ('"-DK=4"\n', False)]),
        ('unicode_space', [('-DK=1\u2003-DM=2\n', False), ('-DK=1\u00a0\n', False), ('-DK=1\u00a0\n', False)]),
        ('nul', [('-DK=1\0-DK=2\n', False)]),
        ('self_including', [('@flags.rsp\n', False), ('@more.rsp\n', False)]),      # cycles without words: on a tree without the bound the server spins but does not grow
    ]
    for name, steps in scen:
        w = world(name)
        try:
            w.write('more.rsp', '@flags.rsp\n' if name == 'self_including' else '-DM=1\n')
            for i, (text, cacheable) in enumerate(steps):
                w.write('flags.rsp', text)
                w.request(f'response file {name} #{i}: flags.rsp = {text!r}', expect_cacheable=cacheable); reqs += 1
            fails += [dict(f, detail=f'response-file scenario {name}: ' + f['detail']) for f in w.fails if f['kind'] not in KNOWN_DEVIATIONS][:2]
            samples.append(' ; '.join(w.trace[:2]))
        finally:
            w.sc.stop(); shutil.rmtree(w.root, ignore_errors=True)
    return {'requests': reqs, 'rsp_scenarios': len(scen), 'fails': fails, 'samples': samples[:1]}


# ------------------------------------------------------------------------------------------------ side outputs
def run_side_outputs(root, tag, compiler):
    """options and environment variables that make the compiler write files besides the object: every request (first = miss or not cacheable,
    second = hit if it was cached) must leave the same files with the same bytes as the direct compile.  (--coverage is not here: two direct
    compiles already differ in the stamp gcc puts into the object and the .gcno file.)"""
    fails = []; reqs = 0; samples = []
    base = os.path.basename(compiler)
    scen = [('MD', ['-MD'], {}), ('MD_MF', ['-MD', '-MF', 'deps2.d'], {}), ('MMD_MT', ['-MMD', '-MT', 'tgt'], {}), ('split_dwarf', ['-g', '-gsplit-dwarf'], {}),
            ('stack_usage', ['-fstack-usage'], {}), ('save_temps_obj', ['-save-temps=obj'], {}), ('dependencies_output', [], {'DEPENDENCIES_OUTPUT': 'envdeps.d'}), ('sunpro_dependencies', [], {'SUNPRO_DEPENDENCIES': 'sun.d'})]
    if base == 'gcc': scen += [('opt_info_file', ['-O2', '-fopt-info-vec=vec.txt'], {}), ('asm_listing', ['-Wa,-adhln=main.lst'], {}), ('asm_deps', ['-Wa,--MD,as.d'], {})]      # (-fprofile-note goes with --coverage, whose objects differ from run to run: fixed in the table, not replayed here)
    if base == 'gcc': scen += [('aux_info', ['-aux-info', 'protos.txt'], {}), ('dump_tree', ['-fdump-tree-optimized'], {}), ('callgraph_info', ['-fcallgraph-info'], {}), ('opt_record', ['-fsave-optimization-record'], {}), ('dump_rtl', ['-fdump-rtl-expand'], {}), ('dumpbase', ['-fstack-usage', '-dumpbase', 'zz'], {})]
    if base == 'clang': scen += [('opt_record', ['-fsave-optimization-record'], {}), ('serialize_diag', ['--serialize-diagnostics', 'diag.dia'], {}), ('time_trace', ['-ftime-trace'], {})]
    scen += [('MD_special_object_name', ['-MD'], {}), ('MMD_special_object_name', ['-MMD', '-MP'], {}), ('MD_two_targets', ['-MD', '-MT', 'a', '-MT', 'b'], {}), ('MD_MQ_and_MT', ['-MD', '-MQ', 'x y', '-MT', 'z'], {})]
    for name, flags, env in scen:
        w = World(os.path.join(root, 'side_' + name), f'{tag}so{name}', compiler, random.Random(0)); w.keep_outputs = False
        w.flags = ['-O1', '-Iinc1'] + flags; w.env = dict(env); w.side_names_only = name in ('opt_record', 'time_trace', 'asm_deps')      # contents with timings or temporary file names
        if name.endswith('special_object_name'): w.out = 'o1/a b$c#d.o'      # characters Make treats specially: the .d file must quote them as the compiler does
        w.sc.start()
        try:
            for i in range(2): w.request(f'side outputs {name} #{i}: {" ".join(flags)} {env if env else ""}', expect_cacheable=False); reqs += 1
            fails += [dict(f, detail=f'side-output scenario {name}: ' + f['detail']) for f in w.fails if f['kind'] not in KNOWN_DEVIATIONS][:1]
            samples.append(' ; '.join(w.trace[:2]))
        finally:
            w.sc.stop(); shutil.rmtree(w.root, ignore_errors=True)
    return {'requests': reqs, 'side_output_scenarios': len(scen), 'fails': fails, 'samples': samples[:1]}


# ------------------------------------------------------------------------------------------------ files named by options
def run_extra_files(root, tag, compiler):
    """options that name a file whose contents steer code generation (sanitizer / coverage / XRay lists): list A, list B, list A again —
    every request compared with the direct compile; the third must be a hit, the second must not be answered from the first"""
    fails = []; reqs = 0; samples = []
    if os.path.basename(compiler) == 'gcc': scen = [('specs', ['-specs=ign.lst'])]
    else: scen = [('sanitize_blacklist', ['-fsanitize=address', '-fsanitize-blacklist=ign.lst']), ('sanitize_ignorelist', ['-fsanitize=address', '-fsanitize-ignorelist=ign.lst']),
            ('coverage_ignorelist', ['-fsanitize-coverage=trace-pc-guard', '-fsanitize-coverage-ignorelist=ign.lst']),
            ('xray_never', ['-fxray-instrument', '-fxray-instruction-threshold=1', '-fxray-never-instrument=ign.lst'])]
    for name, flags in scen:
        w = World(os.path.join(root, 'xf_' + name), f'{tag}xf{name}', compiler, random.Random(0))
        w.write('main.c', 'int g(int);\nint f(int *p, int n) { int s = 0; for (int i = 0; i < n; i++) s += g(p[i]) * 3; return s; }\n'); w.flags = ([] if name == 'specs' else ['-O1']) + flags; w.sc.start()
        try:
            texts = ['*cc1_options:\n+ -O2\n\n', '*cc1_options:\n+ -O0\n\n', '*cc1_options:\n+ -O2\n\n'] if name == 'specs' else ['', 'fun:f\n', '']
            for i, text in enumerate(texts):
                w.write('ign.lst', text)
                w.request(f'list file {name} #{i}: ign.lst = {text!r}'); reqs += 1
            # the file named by the option is missing: the compiler's own error is the answer (F-C01-s: sccache answers with a fatal error of its own)
            os.remove(os.path.join(w.w, 'ign.lst')); w.files.pop('ign.lst', None)
            n_before = len(w.fails)
            w.request(f'list file {name}: ign.lst removed', expect_cacheable=False); reqs += 1
            for f in w.fails[n_before:]:
                if f['kind'] == 'differs_from_direct': f['kind'] = 'missing_option_file_fatal_error'
            fails += [dict(f, detail=f'list-file scenario {name}: ' + f['detail']) for f in w.fails if f['kind'] not in KNOWN_DEVIATIONS][:2]
            samples.append(' ; '.join(w.trace))
        finally:
            w.sc.stop(); shutil.rmtree(w.root, ignore_errors=True)
    return {'requests': reqs, 'extra_file_scenarios': len(scen), 'fails': fails, 'samples': samples[:1]}


# ------------------------------------------------------------------------------------------------ output that is not a regular file
def run_special_outputs(root, tag, compiler):
    """`-o <character device>` (what `-o /dev/null` is; a private node made with mknod stands in for it): the device must still be a device
    afterwards, and what was 'read back' from it must not be served to a later compile of the same source to a real file"""
    d = os.path.join(root, 'special'); shutil.rmtree(d, ignore_errors=True); w = os.path.join(d, 'w'); os.makedirs(os.path.join(w, 'dev'))
    node = os.path.join(w, 'dev', 'null')
    try: os.mknod(node, 0o666 | stat.S_IFCHR, os.makedev(1, 3))
    except (PermissionError, OSError) as e: shutil.rmtree(d, ignore_errors=True); return {'requests': 0, 'skipped': f'mknod: {e}', 'fails': [], 'samples': []}
    open(os.path.join(w, 'm.c'), 'w').write('int m(int x) { return x * 7 + 1; }\n')
    sc = Sc(os.path.join(d, 'sc'), tag); sc.start(); fails = []; trace = []; reqs = 0
    try:
        def req(out):
            nonlocal reqs
            r = sc.compile([compiler, '-O1', '-c', 'm.c', '-o', out], w); reqs += 1
            trace.append(f'{os.path.basename(compiler)} -O1 -c m.c -o {out} -> rc={r.returncode}; dev/null is {"a character device" if stat.S_ISCHR(os.stat(node).st_mode) else "NOT a device any more"}'); return r
        for out in ('dev/null', 'dev/null', 'real.o', 'dev/null', 'real2.o'):
            r = req(out)
            if r.returncode != 0: fails.append({'kind': 'differs_from_direct', 'detail': f'special output: compile to {out} failed rc={r.returncode} {r.stderr[:100]!r}', 'ops': list(trace)}); break
            if not stat.S_ISCHR(os.stat(node).st_mode):
                fails.append({'kind': 'device_replaced_by_file', 'detail': 'special output: the character device given as -o was replaced by a regular file (a cache hit renamed a temporary file over it)', 'ops': list(trace)}); break
            if out.startswith('real'):
                dr = subprocess.run([compiler, '-O1', '-c', 'm.c', '-o', 'direct.o'], cwd=w, capture_output=True)
                got = open(os.path.join(w, out), 'rb').read(); want = open(os.path.join(w, 'direct.o'), 'rb').read()
                if got != want:
                    fails.append({'kind': 'differs_from_direct', 'detail': f'special output: after compiles to a device, the same compile to {out} gave {len(got)} bytes, the direct compile {len(want)} bytes (what was read back from the device had been stored under the key)', 'ops': list(trace)}); break
    finally:
        sc.stop(); shutil.rmtree(d, ignore_errors=True)
    return {'requests': reqs, 'fails': fails, 'samples': [' ; '.join(trace)[:600]]}


# ------------------------------------------------------------------------------------------------ an entry that cannot be evicted
def run_evict_undeletable(root, tag, compiler):
    """the oldest entry replaced by a non-empty directory behind the server's back, and a size limit that holds one entry and a half: the next store
    has to evict exactly that entry and cannot.  Every later request must still be answered like a direct compile, in time, and the server must
    keep answering (statistics included); once the directory is gone the entry is re-populated."""
    d = os.path.join(root, 'evict'); shutil.rmtree(d, ignore_errors=True); w = os.path.join(d, 'w'); os.makedirs(w)
    body = lambda i: f'int f{i}(int n) {{ int s = 0; for (int k = 0; k < n; k++) s += k * {i + 3}; return s; }}\n'
    sc = Sc(os.path.join(d, 'sc'), tag, env={'SCCACHE_DIRECT': 'false'}); sc.start(); fails = []; trace = []; reqs = 0; entries = []
    try:
        def req(i, note):
            nonlocal reqs
            open(os.path.join(w, f's{i}.c'), 'w').write(body(i)); out = os.path.join(w, f's{i}.o')
            if os.path.exists(out): os.remove(out)
            try: r = sc.compile([compiler, '-O1', '-c', f's{i}.c', '-o', f's{i}.o'], w, timeout=40); reqs += 1
            except subprocess.TimeoutExpired:
                trace.append(f'{note}: s{i}.c -> no answer within 40 s')
                fails.append({'kind': 'request_hangs', 'detail': f'entry that cannot be evicted: [{note}] got no answer within 40 s (the direct compile takes milliseconds)', 'ops': list(trace)}); sc.kill(); return False
            got = (r.returncode, file_state(out) and file_state(out)[0])
            dr = subprocess.run([compiler, '-O1', '-c', f's{i}.c', '-o', f'd{i}.o'], cwd=w, capture_output=True); want = (dr.returncode, file_state(os.path.join(w, f'd{i}.o'))[0])
            st_ok = sc.stats() is not None
            trace.append(f'{note}: s{i}.c -> rc={got[0]}, statistics answered: {st_ok}')
            if got != want: fails.append({'kind': 'differs_from_direct', 'detail': f'entry that cannot be evicted: [{note}] gave rc={got[0]}, the direct compile rc={want[0]} (objects equal: {got[1] == want[1]}); stderr {r.stderr[:150]!r}', 'ops': list(trace)})
            elif not st_ok: fails.append({'kind': 'server_stopped_answering', 'detail': f'entry that cannot be evicted: after [{note}] the server does not answer --show-stats any more', 'ops': list(trace)})
            return not fails
        req(0, 'measuring one entry')
        sizes = [os.path.getsize(os.path.join(dp, f)) for dp, dn, fn in os.walk(sc.cache) for f in fn if len(f) == 64]
        sc.stop(); shutil.rmtree(sc.cache, ignore_errors=True)
        sc.env['SCCACHE_CACHE_SIZE'] = str(int(max(sizes) * 1.5)) if sizes else '2K'; sc.start(); trace.append(f'server restarted with a size limit of {sc.env["SCCACHE_CACHE_SIZE"]} bytes (one entry is {max(sizes) if sizes else "?"})')
        if req(0, 'first entry'):
            entries = [os.path.join(dp, f) for dp, dn, fn in os.walk(sc.cache) for f in fn if len(f) == 64]
            for e in entries:
                os.remove(e); os.makedirs(os.path.join(e, 'sub')); open(os.path.join(e, 'sub', 'x'), 'w').write('x')
            trace.append(f'{len(entries)} result entr(y/ies) replaced by a non-empty directory')
            ok = True
            for i in (1, 2, 1, 3):
                if not req(i, f'compile s{i}.c (its store has to evict)'): ok = False; break
            if ok:
                for e in entries: shutil.rmtree(e, ignore_errors=True)
                trace.append('the directories are removed again'); req(0, 'first source again'); req(0, 'and once more')
    finally:
        sc.stop(); shutil.rmtree(d, ignore_errors=True)
    return {'requests': reqs, 'entries_made_undeletable': len(entries), 'fails': fails[:2], 'samples': [' ; '.join(trace)[:600]]}

# ------------------------------------------------------------------------------------------------ the client's umask
def run_client_umask(root, tag, compiler):
    """the server is started under umask 022; a client with umask 077 compiles (miss) and compiles again (hit): the object must get the mode the
    same command gives when run directly under the client's umask"""
    d = os.path.join(root, 'umask'); shutil.rmtree(d, ignore_errors=True); w = os.path.join(d, 'w'); os.makedirs(w)
    fails = []; trace = []; reqs = 0
    sc = Sc(os.path.join(d, 'sc'), tag + 'um')
    old = os.umask(0o022)
    try:
        sc.start(); trace.append('server started under umask 022')
        open(os.path.join(w, 'u.c'), 'w').write('int u(void) { return 7; }\n')
        argv = [compiler, '-c', 'u.c', '-o', 'u.o']
        for step in ('miss', 'hit'):
            for f in ('u.o',):
                try: os.remove(os.path.join(w, f))
                except OSError: pass
            r = subprocess.run([sc.bin] + argv, cwd=w, env=sc.env, capture_output=True, timeout=120, preexec_fn=lambda: os.umask(0o077)); reqs += 1
            got = file_state(os.path.join(w, 'u.o'))
            os.remove(os.path.join(w, 'u.o')) if got else None
            dr = subprocess.run(argv, cwd=w, capture_output=True, preexec_fn=lambda: os.umask(0o077))
            want = file_state(os.path.join(w, 'u.o'))
            line = f'client umask 077 ({step}): {" ".join(argv)} -> rc={r.returncode} mode {got and oct(got[1])}; direct under umask 077: rc={dr.returncode} mode {want and oct(want[1])}'
            trace.append(line)
            if got and want and got[0] == want[0] and got[1] != want[1]:
                fails.append({'kind': 'output_mode_follows_server_umask', 'detail': f'client umask 077, server umask 022 ({step}): object created {got[1]:o}, the direct compile creates {want[1]:o}', 'ops': list(trace)})
            elif (got is None) != (want is None) or (got and want and got[0] != want[0]) or r.returncode != dr.returncode:
                fails.append({'kind': 'differs_from_direct', 'detail': line, 'ops': list(trace)})
    finally:
        os.umask(old); sc.stop(); shutil.rmtree(d, ignore_errors=True)
    return {'requests': reqs, 'fails': fails[:1], 'samples': [' ; '.join(trace)[:400]]}

# ------------------------------------------------------------------------------------------------ options whose place on the command line matters
def run_option_order(root, tag, compiler):
    """`-x LANG` names the language of the input files that follow it; after the input it has no effect (the compilers warn).  F-C01-r."""
    d = os.path.join(root, 'order'); shutil.rmtree(d, ignore_errors=True); w = os.path.join(d, 'w'); os.makedirs(w)
    open(os.path.join(w, 'main.c'), 'w').write('int class = 1;\nint f(void) { return class; }\n')       # C, not C++
    sc = Sc(os.path.join(d, 'sc'), tag); sc.start(); fails = []; trace = []; reqs = 0
    try:
        for name, argv in (('x_after_input', [compiler, '-c', 'main.c', '-x', 'c++', '-o', 'out.o']), ('x_before_input', [compiler, '-x', 'c', '-c', 'main.c', '-o', 'out.o'])):
            for i in range(2):
                out = os.path.join(w, 'out.o')
                if os.path.exists(out): os.remove(out)
                r = sc.compile(argv, w); got = (r.returncode, file_state(out) and file_state(out)[0]); reqs += 1
                if os.path.exists(out): os.remove(out)
                dr = subprocess.run(argv, cwd=w, capture_output=True); want = (dr.returncode, file_state(out) and file_state(out)[0])
                trace.append(f'{name} #{i}: {" ".join(argv[1:])} -> rc={got[0]} (direct rc={want[0]})')
                if got != want:
                    fails.append({'kind': 'differs_from_direct', 'detail': f'option order {name}: exit status / object differ from the direct compile (wrapped rc={got[0]}, direct rc={want[0]})', 'ops': list(trace)}); break
    finally:
        sc.stop(); shutil.rmtree(d, ignore_errors=True)
    return {'requests': reqs, 'fails': fails, 'samples': [' ; '.join(trace)[:400]]}
