"""C05 system monitor: real sccache + real rustc on a small generated crate (module tree, include_str!, env!,
cfg feature, an extern rlib dependency): histories of edits to each of those inputs and of argument reorderings.
Every request is compared with a direct rustc run (exit status, stderr, every file in --out-dir); an edit of any input
must miss, a reordering of --cfg / --extern / -L must hit. Also replays the extern-alias witness (finding F-C05-a)."""
import os, shutil, subprocess, random, hashlib
from syslib import *

def outdir_state(d):
    return {f: hashlib.sha256(open(os.path.join(d, f), 'rb').read()).hexdigest() for f in sorted(os.listdir(d))} if os.path.isdir(d) else None

class Crate:
    def __init__(self, root, tag):
        self.root = root; shutil.rmtree(root, ignore_errors=True); self.w = os.path.join(root, 'w'); os.makedirs(os.path.join(self.w, 'src')); os.makedirs(os.path.join(self.w, 'deps')); os.makedirs(os.path.join(self.w, 'out')); os.makedirs(os.path.join(self.w, 'native'))
        self.sc = Sc(os.path.join(root, 'sc'), tag)
        self.files = {'src/lib.rs': 'mod m;\nextern "C" { fn answer() -> u32; }\npub fn n() -> u32 { unsafe { answer() } }\npub fn f() -> u32 { m::g() + dep::d() + DATA.len() as u32 + env!("MYVAR").len() as u32 + option_env!("CARGO_REGISTRIES_ALT_INDEX").map_or(7, |s| s.len() as u32 * 3) + option_env!("CARGO_PKG_NAME").map_or(5, |s| s.len() as u32 * 11) + extra() }\nconst DATA: &str = include_str!("data.txt");\n#[cfg(feature = "x")] fn extra() -> u32 { 10 }\n#[cfg(not(feature = "x"))] fn extra() -> u32 { 0 }\n',
                      'src/m.rs': 'pub fn g() -> u32 { 1 }\n', 'src/data.txt': 'hello\n', 'deps/dep.rs': 'pub fn d() -> u32 { 5 }\n'}
        for k, v in self.files.items(): self.write(k, v)
        self.env = {'MYVAR': 'abc'}; self.cfgs = ['feature="x"', 'feature="y"']; self.build_dep(); self.native_form = '-L native'; self.build_native(42)
    def write(self, rel, text):
        open(os.path.join(self.w, rel), 'w').write(text); self.files[rel] = text
    def build_dep(self):
        subprocess.run(['rustc', '--crate-name', 'dep', '--crate-type', 'lib', '--edition=2021', 'deps/dep.rs', '--out-dir', 'deps', '-C', 'metadata=1'], cwd=self.w, check=True, capture_output=True)
    def build_native(self, v):
        # a static library found through -L: its *contents* are an input of the crate (bundled into the rlib)
        self.files['native/answer.c'] = 'unsigned answer(void) { return %d; }\n' % v
        open(os.path.join(self.w, 'native/answer.c'), 'w').write(self.files['native/answer.c'])
        subprocess.run(['cc', '-c', 'answer.c', '-o', 'answer.o'], cwd=os.path.join(self.w, 'native'), check=True)
        if os.path.exists(os.path.join(self.w, 'native/libanswer.a')): os.remove(os.path.join(self.w, 'native/libanswer.a'))
        subprocess.run(['ar', 'rcsD', 'libanswer.a', 'answer.o'], cwd=os.path.join(self.w, 'native'), check=True)
    def argv(self, order=0):
        cfg = sum((['--cfg', c] for c in (self.cfgs if order % 2 == 0 else list(reversed(self.cfgs)))), [])
        ext = ['--extern', 'dep=deps/libdep.rlib', '-L', 'dependency=deps']
        if order >= 2: ext = ['-L', 'dependency=deps', '--extern', 'dep=deps/libdep.rlib']
        return ['rustc', '--crate-name', 'top', '--crate-type', 'lib', '--edition=2021', '--emit=dep-info,metadata,link', '-C', 'metadata=abc', '-C', 'extra-filename=-abc',
                'src/lib.rs', '--out-dir', 'out'] + cfg + ext + self.native_form.split() + ['-l', 'static=answer']

ENV_SCRIPT = [('CARGO_REGISTRIES_ALT_INDEX', 'a'), ('CARGO_REGISTRIES_ALT_INDEX', 'bbb'), ('CARGO_REGISTRIES_ALT_INDEX', None), ('CARGO_PKG_NAME', 'x'), ('CARGO_PKG_NAME', 'yy'), ('MYVAR', 'zzzz'),
              ('MYVAR', 'profile=release;rev=1a2b'), ('MYVAR', 'profile=release;rev=3c4d')]      # a value with '=' in it, changing behind the first '='

def run(root, tag, seed, n_req, script=()):
    rng = random.Random(seed); c = Crate(root, tag); fails = []; trace = []; reqs = hits = misses = 0; seen = set()
    c.sc.start()
    try:
        for i in range(n_req):
            k = rng.randrange(11) if i else 8
            forced = script[i - 1] if 0 < i <= len(script) else None
            if forced: k = 2
            note = {0: 'edit module', 1: 'edit include_str! file', 2: 'change env! variable', 3: 'toggle a cfg feature', 4: 'edit the extern crate', 5: 'reorder --cfg', 6: 'reorder --extern/-L', 7: 'edit lib.rs', 8: 'no change', 9: 'rebuild the static library with new contents', 10: 'switch -L form (plain / native=)'}[k]
            order = 0
            if k == 0: c.write('src/m.rs', 'pub fn g() -> u32 { %d }\n' % rng.randrange(2, 99))
            elif k == 1: c.write('src/data.txt', 'hello %d\n' % rng.randrange(99))
            elif k == 2:
                # variables read through env!/option_env! reach the key as env-deps of rustc's dep-info, whatever their name class
                # (plain, CARGO_PKG_*, and CARGO_REGISTRIES_* which the blanket CARGO_* hashing leaves out); set, change or unset
                var = forced[0] if forced else rng.choice(['MYVAR', 'CARGO_REGISTRIES_ALT_INDEX', 'CARGO_PKG_NAME'])
                e = dict(c.env)
                if forced: (e.pop(var, None) if forced[1] is None else e.__setitem__(var, forced[1]))
                elif var != 'MYVAR' and var in e and rng.random() < 0.3: del e[var]
                else: e[var] = 'v' * rng.randrange(1, 6) if rng.random() < 0.6 else 'k=' + 'w' * rng.randrange(1, 6)
                c.env = e; note = f'change {var} read by the crate'
            elif k == 3: c.cfgs = ['feature="y"'] if 'feature="x"' in c.cfgs else ['feature="x"', 'feature="y"']
            elif k == 4: c.write('deps/dep.rs', 'pub fn d() -> u32 { %d }\n' % rng.randrange(6, 99)); c.build_dep()
            elif k == 5: order = 1
            elif k == 6: order = 2
            elif k == 9: c.build_native(rng.randrange(1000))
            elif k == 10: c.native_form = '-L native=native' if c.native_form == '-L native' else '-L native'
            elif k == 7: c.write('src/lib.rs', c.files['src/lib.rs'].rstrip('\n') + '\n// edit %d\n' % rng.randrange(999))
            argv = c.argv(order); env = dict(c.env)
            fp = (tuple(sorted(c.files.items())), tuple(sorted(c.cfgs)), tuple(sorted(env.items())))
            shutil.rmtree(os.path.join(c.w, 'out')); os.makedirs(os.path.join(c.w, 'out'))
            b = counts(c.sc.stats() or {})
            r = c.sc.compile(argv, c.w, env=env, timeout=300); got = (r.returncode, r.stderr, outdir_state(os.path.join(c.w, 'out')))
            a = counts(c.sc.stats() or {}); cls = 'hit' if a.get('cache_hits', 0) > b.get('cache_hits', 0) else ('miss' if a.get('cache_misses', 0) > b.get('cache_misses', 0) else 'other')
            shutil.rmtree(os.path.join(c.w, 'out')); os.makedirs(os.path.join(c.w, 'out'))
            d = subprocess.run(argv, cwd=c.w, env=dict(os.environ, **env), capture_output=True); want = (d.returncode, d.stderr, outdir_state(os.path.join(c.w, 'out')))
            reqs += 1; hits += cls == 'hit'; misses += cls == 'miss'
            trace.append(f'{note}: {" ".join(argv[1:])} env={env} -> rc={got[0]} {cls}')
            if got != want:
                what = [n for n, x, y in zip(('exit status', 'stderr', 'files in --out-dir'), got, want) if x != y]
                fails.append({'kind': 'rustc_differs_from_direct', 'detail': f'{"/".join(what)} differ from the direct rustc run after [{note}] ({cls})', 'ops': list(trace)})
            if want[0] == 0:
                if fp in seen and cls != 'hit': fails.append({'kind': 'rust_repeat_not_hit', 'detail': f'[{note}]: identical crate inputs were compiled before but the request was classified {cls}', 'ops': list(trace)})
                if fp not in seen and cls == 'hit': fails.append({'kind': 'rust_hit_for_changed_input', 'detail': f'[{note}]: an input of the crate changed but the request was answered from the cache', 'ops': list(trace)})
                if cls in ('hit', 'miss'): seen.add(fp)
    finally:
        c.sc.stop(); shutil.rmtree(root, ignore_errors=True)
    return {'requests': reqs, 'hits': hits, 'misses': misses, 'fails': fails[:3], 'samples': [' ; '.join(trace[:4])]}

def codegen_options(root, tag):
    """codegen options that change what rustc leaves in --out-dir: each command line twice (miss, then hit); the directory must hold the same
    files with the same bytes as after a direct run (temporary directories with random names aside)"""
    c = Crate(root, tag); fails = []; reqs = 0; samples = []
    def state(d): return {f: hashlib.sha256(open(os.path.join(d, f), 'rb').read()).hexdigest()[:12] for f in sorted(os.listdir(d)) if os.path.isfile(os.path.join(d, f))}
    scen = [('debuginfo', ['-g']), ('split_debuginfo_packed', ['-g', '-C', 'split-debuginfo=packed']), ('split_debuginfo_unpacked', ['-g', '-C', 'split-debuginfo=unpacked']), ('save_temps', ['-C', 'save-temps']),
            ('opt2', ['-C', 'opt-level=2']), ('line_tables', ['-C', 'debuginfo=1']), ('strip', ['-g', '-C', 'strip=debuginfo']), ('no_bitcode', ['-C', 'embed-bitcode=no']), ('cgu3', ['-C', 'codegen-units=3'])]
    c.sc.start()
    try:
        for name, extra in scen:
            argv = c.argv(0) + extra; out = os.path.join(c.w, 'out'); trace = []
            shutil.rmtree(out); os.makedirs(out)
            d = subprocess.run(argv, cwd=c.w, env=dict(os.environ, **c.env), capture_output=True); want = (d.returncode, state(out))
            for i in range(2):
                shutil.rmtree(out); os.makedirs(out)
                b = counts(c.sc.stats() or {})
                r = c.sc.compile(argv, c.w, env=c.env, timeout=300); got = (r.returncode, state(out)); reqs += 1
                a = counts(c.sc.stats() or {}); cls = 'hit' if a.get('cache_hits', 0) > b.get('cache_hits', 0) else ('miss' if a.get('cache_misses', 0) > b.get('cache_misses', 0) else 'other')
                trace.append(f'codegen options {name} #{i}: {" ".join(extra)} -> rc={got[0]} {cls} files {sorted(got[1])}')
                if got != want:
                    names = sorted(set(got[1]) ^ set(want[1])) or sorted(k for k in got[1] if got[1][k] != want[1].get(k))
                    fails.append({'kind': 'rustc_differs_from_direct', 'detail': f'codegen options {name}: the files in --out-dir differ from the direct rustc run ({cls}): {names[:3]} (direct run leaves {sorted(want[1])})', 'ops': list(trace)}); break
            if len(samples) < 1: samples.append(' ; '.join(trace))
    finally:
        c.sc.stop(); shutil.rmtree(root, ignore_errors=True)
    return {'requests': reqs, 'codegen_scenarios': len(scen), 'fails': fails, 'samples': samples}

def artifact_notifications(root, tag):
    """cargo's `--error-format=json --json=artifacts`: rustc reports every file it has written on stderr.  The same crate compiled into
    out directory A, then into B: the second request's notifications must name the files under B (F-C05-d: they name A — the key does not
    depend on --out-dir, the stored stderr does)"""
    c = Crate(root, tag); fails = []; trace = []
    c.sc.start()
    try:
        for od in ('outA', 'outB'):
            os.makedirs(os.path.join(c.w, od), exist_ok=True)
            argv = [a if a != 'out' else od for a in c.argv(0)] + ['--error-format=json', '--json=artifacts']
            r = c.sc.compile(argv, c.w, env=c.env, timeout=300)
            shutil.rmtree(os.path.join(c.w, od)); os.makedirs(os.path.join(c.w, od))
            d = subprocess.run(argv, cwd=c.w, env=dict(os.environ, **c.env), capture_output=True)
            trace.append(f'--out-dir {od}: rc={r.returncode}; notifications {[l.decode(errors="replace")[:70] for l in r.stderr.splitlines() if b"artifact" in l][:3]}')
            if (r.returncode, r.stderr) != (d.returncode, d.stderr):
                fails.append({'kind': 'rustc_differs_from_direct', 'detail': f'artifact notifications: with --out-dir {od} the messages on stderr differ from the direct rustc run (they name another directory)', 'ops': list(trace)}); break
    finally:
        c.sc.stop(); shutil.rmtree(root, ignore_errors=True)
    return {'requests': 2, 'fails': fails, 'samples': trace[:1]}

def extern_alias(root, tag):
    """F-C05-a witness on the real binary: swap which crate name is bound to which rlib"""
    shutil.rmtree(root, ignore_errors=True); w = os.path.join(root, 'w'); os.makedirs(os.path.join(w, 'out'))
    open(f'{w}/p.rs', 'w').write('pub fn f() -> u32 { 1 }\n'); open(f'{w}/q.rs', 'w').write('pub fn f() -> u32 { 2 }\n')
    open(f'{w}/top.rs', 'w').write('pub fn t() -> u32 { a::f() * 10 + b::f() }\n')
    for n in ('p', 'q'): subprocess.run(['rustc', '--crate-name', n, '--crate-type', 'lib', '--edition=2021', f'{n}.rs', '--out-dir', '.'], cwd=w, check=True, capture_output=True)
    sc = Sc(os.path.join(root, 'sc'), tag); sc.start(); res = []
    try:
        for ext in (['--extern', 'a=libp.rlib', '--extern', 'b=libq.rlib'], ['--extern', 'a=libq.rlib', '--extern', 'b=libp.rlib']):
            argv = ['rustc', '--crate-name', 'top', '--crate-type', 'lib', '--edition=2021', '--emit=link', 'top.rs', '--out-dir', 'out'] + ext
            shutil.rmtree(f'{w}/out'); os.makedirs(f'{w}/out'); sc.compile(argv, w, timeout=300); got = outdir_state(f'{w}/out')
            shutil.rmtree(f'{w}/out'); os.makedirs(f'{w}/out'); subprocess.run(argv, cwd=w, capture_output=True); want = outdir_state(f'{w}/out')
            res.append(got == want)
        line = f'--extern a=libp b=libq equals direct: {res[0]}; then --extern a=libq b=libp equals direct: {res[1]}'
        return line, ([] if all(res) else [{'kind': 'extern_alias_stale_hit', 'detail': line + ' [the name= half of --extern is not hashed]', 'ops': [line]}])
    finally:
        sc.stop(); shutil.rmtree(root, ignore_errors=True)
