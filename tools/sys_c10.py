"""C10 system monitor: a cache *hit* through the real sccache binary replaces an existing output by rename: a reader
that has the previous file open (and is in the middle of it) keeps reading the complete previous bytes, the path gets
a new inode with the complete new bytes, a hard link made before the hit keeps the old bytes, no temp file is left."""
import os, shutil
from syslib import *

def run(root, tag, rounds=2):
    fails = []; samples = []; n = 0
    for r in range(rounds):
        d = os.path.join(root, f'r{r}'); shutil.rmtree(d, ignore_errors=True); w = os.path.join(d, 'w'); os.makedirs(w)
        open(f'{w}/a.c', 'w').write(f'int a(void){{return {r};}}\n'); open(f'{w}/b.c', 'w').write(f'int b(void){{return 2;}} int bb[{4096 + r}]={{7}};\n')
        sc = Sc(os.path.join(d, 'sc'), f'{tag}{r}'); sc.start()
        try:
            sc.compile(['/usr/bin/gcc', '-c', 'a.c', '-o', 'out.o'], w); A = open(f'{w}/out.o', 'rb').read()
            sc.compile(['/usr/bin/gcc', '-c', 'b.c', '-o', 'out.o'], w); B = open(f'{w}/out.o', 'rb').read()
            if r % 2 == 1:
                # the output path is a symbolic link to the file with the previous bytes: the hit must replace the link, the target keeps the old bytes
                os.rename(f'{w}/out.o', f'{w}/real.o'); os.symlink('real.o', f'{w}/out.o')
            os.link(f'{w}/real.o' if r % 2 == 1 else f'{w}/out.o', f'{w}/alias.o')
            fd = os.open(f'{w}/out.o', os.O_RDONLY); ino0 = os.fstat(fd).st_ino; first = os.read(fd, 100)
            before = counts(sc.stats())
            sc.compile(['/usr/bin/gcc', '-c', 'a.c', '-o', 'out.o'], w)      # cache hit: extract over the path
            after = counts(sc.stats())
            rest = b''
            while True:
                c = os.read(fd, 65536)
                if not c: break
                rest += c
            os.close(fd)
            hit = after['cache_hits'] - before['cache_hits'] == 1
            now = open(f'{w}/out.o', 'rb').read(); ino1 = os.stat(f'{w}/out.o').st_ino
            left = [f for f in os.listdir(w) if f not in ('a.c', 'b.c', 'out.o', 'alias.o', 'real.o')]
            line = f'output_was_symlink={r % 2 == 1} hit={hit} reader_saw_old_complete={first + rest == B} path_has_new={now == A} new_inode={ino0 != ino1} hard_link_keeps_old={open(f"{w}/alias.o", "rb").read() == B} leftovers={left}'
            samples.append(line); n += 1
            if not hit: fails.append({'kind': 'expected_hit_missing', 'detail': line, 'ops': [line]})
            if first + rest != B: fails.append({'kind': 'open_reader_saw_changed_bytes', 'detail': line, 'ops': [line]})
            if now != A: fails.append({'kind': 'output_not_restored', 'detail': line, 'ops': [line]})
            if ino0 == ino1: fails.append({'kind': 'output_rewritten_in_place', 'detail': line, 'ops': [line]})
            if open(f'{w}/alias.o', 'rb').read() != B: fails.append({'kind': 'hard_link_rewritten', 'detail': line, 'ops': [line]})
            if left: fails.append({'kind': 'temp_left_behind', 'detail': line, 'ops': [line]})
        finally:
            sc.stop(); shutil.rmtree(d, ignore_errors=True)
    return {'rounds': n, 'fails': fails, 'samples': samples}
