/* Stand-in for bubblewrap (not installed in this sandbox) so that the REAL sccache-dist build server
 * (OverlayBuilder: toolchain unpack, overlay mount, input unpack, output directories, output collection)
 * can execute jobs.  It understands exactly the invocation src/bin/sccache-dist/build.rs makes:
 *     bwrap --version
 *     bwrap ... --bind <root> / ... --chdir <cwd> [--setenv K V]... -- <executable> <args...>
 * and runs <executable> chroot-ed into <root> with exactly the given environment.  It provides NO isolation beyond
 * the chroot (no namespaces, capabilities kept): the sandbox half of C19 is therefore still outside what can be
 * observed here; what is observed is everything the build server itself does around the sandboxed process.
 * Every invocation is appended to $VERIF_BWRAP_LOG (if set) as one line: root<TAB>cwd<TAB>exe<TAB>args...            */
#define _GNU_SOURCE
#include <stdio.h>
#include <stdlib.h>
#include <string.h>
#include <unistd.h>
#include <errno.h>

extern char **environ;

int main(int argc, char **argv) {
    if (argc >= 2 && strcmp(argv[1], "--version") == 0) { puts("bubblewrap 0.8.0"); return 0; }
    const char *root = NULL, *cwd = "/";
    char *envv[4096]; int nenv = 0;
    int i = 1;
    for (; i < argc; i++) {
        if (strcmp(argv[i], "--") == 0) { i++; break; }
        if (strcmp(argv[i], "--bind") == 0 && i + 2 < argc) { if (strcmp(argv[i + 2], "/") == 0) root = argv[i + 1]; i += 2; }
        else if (strcmp(argv[i], "--chdir") == 0 && i + 1 < argc) { cwd = argv[i + 1]; i += 1; }
        else if (strcmp(argv[i], "--setenv") == 0 && i + 2 < argc) {
            size_t n = strlen(argv[i + 1]) + strlen(argv[i + 2]) + 2; char *kv = malloc(n);
            snprintf(kv, n, "%s=%s", argv[i + 1], argv[i + 2]); if (nenv < 4095) envv[nenv++] = kv; i += 2; }
        else if ((strcmp(argv[i], "--proc") == 0 || strcmp(argv[i], "--dev") == 0 || strcmp(argv[i], "--cap-drop") == 0) && i + 1 < argc) i += 1;
        /* --die-with-parent, --unshare-*: no argument */
    }
    envv[nenv] = NULL;
    if (!root || i >= argc) { fprintf(stderr, "fake-bwrap: no --bind <root> / or no command\n"); return 2; }
    const char *log = getenv("VERIF_BWRAP_LOG");
    if (log) { FILE *f = fopen(log, "a"); if (f) { fprintf(f, "%s\t%s", root, cwd); for (int k = i; k < argc; k++) fprintf(f, "\t%s", argv[k]); fputc('\n', f); fclose(f); } }
    if (chroot(root) != 0) { fprintf(stderr, "fake-bwrap: chroot %s: %s\n", root, strerror(errno)); return 2; }
    if (chdir(cwd) != 0) { fprintf(stderr, "fake-bwrap: chdir %s: %s\n", cwd, strerror(errno)); return 2; }
    environ = envv;
    execv(argv[i], &argv[i]);
    fprintf(stderr, "fake-bwrap: exec %s: %s\n", argv[i], strerror(errno));
    return 127;
}
