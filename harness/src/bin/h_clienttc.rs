//! C13 tie for `ClientTcM` (Model/ClientTc.lean): the REAL `dist::cache::ClientToolchains::put_toolchain` (through the public `dist::http::Client::put_toolchain`; no request is sent) — weak-key map in front of
//! the client's local toolchain cache — under request histories over four compilers whose packaged toolchains have generated sizes
//! (some larger than the cache), with restarts (a new `ClientToolchains` on the same directory: the map is read back from weak_map.json).
//! usage: h_clienttc gen <histories> <trace> <summary.json> | h_clienttc replay <file>
//! trace: `new <cap> <s0> <s1> <s2> <s3>` / `put <w> | ok <w'>` / `put <w> | toolarge` / `restart`
//! Monitor (statement level): a request for a compiler whose packaged toolchain does not fit the cache must be reported — every time.
use sccache::dist::http::Client;
use sccache::dist::Client as _;
use sccache::dist::pkg::ToolchainPackager;
use std::io::Write;
use verif_harness::*;

struct Pk { w: u8, size: usize }
impl ToolchainPackager for Pk {
    fn write_pkg(self: Box<Self>, mut f: fs_err::File) -> sccache::errors::Result<()> { f.write_all(&vec![b'a' + self.w; self.size])?; Ok(()) }
}

fn run_history(rt: &tokio::runtime::Runtime, ops: &[String], fails: &mut Vec<String>) -> Vec<String> {
    let tmp = tempfile::tempdir().unwrap();
    let mk = |cap: u64| Client::new(rt.handle(), "http://127.0.0.1:9".parse().unwrap(), tmp.path(), cap, &[], "t".to_string(), false).unwrap();
    let mut out = vec![]; let mut cap = 0u64; let mut sizes = vec![0usize; 4];
    let mut ct: Option<Client> = None; let mut ids: Vec<(String, usize)> = vec![];
    for op in ops {
        let t: Vec<&str> = op.split_whitespace().collect();
        match t[0] {
            "new" => { cap = t[1].parse().unwrap(); for i in 0..4 { sizes[i] = t[2 + i].parse().unwrap(); }
                       ct = Some(mk(cap)); out.push(op.clone()); }
            "restart" => { drop(ct.take()); ct = Some(mk(cap)); out.push(op.clone()); }
            "put" => { let w: usize = t[1].parse().unwrap();
                let r = rt.block_on(ct.as_ref().unwrap().put_toolchain(std::path::PathBuf::from(format!("/usr/bin/cc{}", w)), format!("weak{}", w), Box::new(Pk { w: w as u8, size: sizes[w] })));
                let ans = match r {
                    Ok((tc, _)) => { let k = match ids.iter().find(|(i, _)| *i == tc.archive_id) { Some((_, k)) => *k, None => { ids.push((tc.archive_id.clone(), w)); w } }; format!("ok {}", k) }
                    Err(e) => { let m = format!("{:#}", e); if m.to_lowercase().contains("too large") || m.contains("FileTooLarge") { "toolarge".to_string() } else { format!("err {}", m.replace('\n', " ")) } }
                };
                out.push(format!("put {} | {}", w, ans));
                if sizes[w] as u64 > cap && ans.starts_with("ok") {
                    fails.push(fail_json("too_small_not_reported", &format!("the packaged toolchain of compiler {} ({} bytes) does not fit the local toolchain cache ({} bytes) but put_toolchain answered {}", w, sizes[w], cap, ans), &out, ""));
                }
            }
            _ => out.push(format!("bad-op {}", op)),
        }
    }
    out
}

fn main() {
    let a: Vec<String> = std::env::args().collect();
    let rt = tokio::runtime::Builder::new_multi_thread().worker_threads(2).enable_all().build().unwrap();
    if a[1] == "replay" {
        let ops: Vec<String> = std::fs::read_to_string(&a[2]).unwrap().lines().filter(|l| !l.starts_with('#') && !l.trim().is_empty()).map(|l| l.split(" | ").next().unwrap().to_string()).collect();
        let mut fails = vec![]; for l in run_history(&rt, &ops, &mut fails) { println!("{}", l); }
        if !fails.is_empty() { println!("FAIL {}", fails.len()); std::process::exit(1); }
        return;
    }
    let n: usize = a[2].parse().unwrap();
    let mut rng = Rng::from_env();
    let mut tr = std::io::BufWriter::new(std::fs::File::create(&a[3]).unwrap());
    let mut fails: Vec<String> = vec![]; let (mut puts, mut too, mut restarts, mut cached) = (0u64, 0u64, 0u64, 0u64);
    for _ in 0..n {
        let cap = 40 + rng.below(60);
        let mut ops = vec![format!("new {} {} {} {} {}", cap, 1 + rng.below(150), 1 + rng.below(150), 1 + rng.below(cap), cap + 1 + rng.below(50))];
        for _ in 0..(3 + rng.below(8)) { if rng.below(5) == 0 { ops.push("restart".into()); restarts += 1; } else { ops.push(format!("put {}", rng.below(4))); } }
        let mut seen = std::collections::HashSet::new();
        for l in run_history(&rt, &ops, &mut fails) {
            if l.starts_with("put") { puts += 1; if l.ends_with("toolarge") { too += 1; } else if !seen.insert(l.clone()) { cached += 1; } }
            writeln!(tr, "{}", l).unwrap();
        }
    }
    fails.truncate(3);
    std::fs::write(&a[4], format!("{{\"histories\":{},\"puts\":{},\"reported_too_large\":{},\"answered_from_the_map\":{},\"restarts\":{},\"monitor_failures\":[{}]}}", n, puts, too, cached, restarts, fails.join(","))).unwrap();
}
