//! C05: byte-exact tie of the Rust cache key.  A small crate on disk (module, `include_str!`, `option_env!`, an extern rlib built
//! with the real rustc), generated command lines and environments; for each the REAL key (`get_compiler_info` →
//! `parse_arguments` → `RustHasher::generate_hash_key`, real rustc for dep-info) and, independently, the components the model
//! needs (file digests with the real `Digest`, the dep-info rustc writes for the same command, `rustc -vV`, the sysroot library
//! digests).  `modeld rustkey` assembles the pre-image (`RustReqM.preimage`: model parser + environment filter + `encRust`);
//! `h_rustkey cmp` checks BLAKE3(pre-image) = real key.
//! Monitor (the statement): reordering `--cfg` / `--extern` / `-L` keeps the key; a change of any single input changes it.
//! usage: h_rustkey gen <n> <requests_out> <realkeys_out> <summary_out> | h_rustkey cmp <realkeys> <model_preimages>
use sccache::verif::*;
use std::ffi::OsString;
use std::io::Write;
use std::os::unix::ffi::OsStrExt;
use std::path::{Path, PathBuf};
use std::sync::Arc;
use verif_harness::*;

struct NoStore;
#[async_trait::async_trait]
impl Storage for NoStore {
    async fn get(&self, _key: &str) -> sccache::errors::Result<Cache> { Ok(Cache::Miss) }
    async fn put(&self, _key: &str, _entry: CacheWrite) -> sccache::errors::Result<std::time::Duration> { Ok(std::time::Duration::from_secs(0)) }
    async fn check(&self) -> sccache::errors::Result<CacheMode> { Ok(CacheMode::ReadWrite) }
    fn location(&self) -> String { "none".into() }
    async fn current_size(&self) -> sccache::errors::Result<Option<u64>> { Ok(None) }
    async fn max_size(&self) -> sccache::errors::Result<Option<u64>> { Ok(None) }
}

fn hl(l: &[Vec<u8>]) -> String { if l.is_empty() { "-".into() } else { l.iter().map(|x| hex_e(x)).collect::<Vec<_>>().join(",") } }
fn pl(l: &[(Vec<u8>, Vec<u8>)]) -> String { if l.is_empty() { "-".into() } else { l.iter().map(|(k, v)| format!("{}={}", hex_e(k), hex_e(v))).collect::<Vec<_>>().join(",") } }
fn model_key(preimage_hex: &str) -> Option<String> {
    if preimage_hex.starts_with("none") || preimage_hex == "bad-line" { return None; }
    let h = blake3::hash(&unhex(preimage_hex));
    Some(h.as_bytes().iter().map(|b| format!("{:x}{:x}", b & 0xf, b >> 4)).collect())       // `util::hex` writes the low nibble first
}

/// the first line of a dep-info file, as make would split it (`\ ` is a space in a name)
fn dep_sources(dep: &str, cwd: &Path) -> Vec<PathBuf> {
    let line = match dep.lines().next() { Some(l) => l, None => return vec![] };
    let rest = match line.find(": ") { Some(p) => &line[p + 2..], None => return vec![] };
    let mut out = vec![]; let mut cur = String::new(); let mut it = rest.chars().peekable();
    while let Some(c) = it.next() { match c { '\\' if it.peek() == Some(&' ') => { cur.push(' '); it.next(); } ' ' => { out.push(std::mem::take(&mut cur)); } c => cur.push(c) } }
    if !cur.is_empty() { out.push(cur); }
    let mut v: Vec<PathBuf> = out.iter().map(|s| cwd.join(s)).collect(); v.sort(); v
}
fn dep_env(dep: &str) -> Vec<(Vec<u8>, Vec<u8>)> {
    dep.lines().filter_map(|l| l.strip_prefix("# env-dep:")).map(|e| match e.split_once('=') { Some((k, v)) => (k.as_bytes().to_vec(), v.as_bytes().to_vec()), None => (e.as_bytes().to_vec(), vec![]) }).collect()
}

struct Case { argv: Vec<Vec<u8>>, env: Vec<(Vec<u8>, Vec<u8>)> }

fn gen_case(rng: &mut Rng) -> Case {
    let mut groups: Vec<Vec<Vec<u8>>> = vec![];
    let b = |s: &str| s.as_bytes().to_vec();
    let mut two = |rng: &mut Rng, f: &str, v: &str| if rng.chance(1, 2) { vec![b(f), b(v)] } else if f.starts_with("--") { vec![b(&format!("{}={}", f, v))] } else { vec![b(&format!("{}{}", f, v))] };
    groups.push(two(rng, "--crate-name", "krate"));
    groups.push(vec![b("src/lib.rs")]);
    groups.push({ let v_ = *rng.pick(&["lib", "rlib", "rlib,staticlib", "lib,rlib"]); two(rng, "--crate-type", v_) });
    groups.push({ let v_ = *rng.pick(&["link", "dep-info,link", "dep-info,metadata,link", "metadata", "dep-info,metadata"]); two(rng, "--emit", v_) });
    groups.push({ let v_ = *rng.pick(&["out", "out2"]); two(rng, "--out-dir", v_) });
    groups.push(vec![b("--edition=2021")]);
    for f in ["a", "b", "c"] { if rng.chance(1, 2) { groups.push(two(rng, "--cfg", &format!("feature=\"{}\"", f))); } }
    if rng.chance(1, 2) { groups.push({ let v_ = *rng.pick(&["opt-level=2", "opt-level=0", "debuginfo=1", "metadata=abc", "extra-filename=-x1"]); two(rng, "-C", v_) }); }
    if rng.chance(1, 3) { groups.push(two(rng, "--cap-lints", "allow")); }
    // lint levels: rustc applies them in command-line order (`-D x -A x` allows, `-A x -D x` denies), so their order is part of the request
    if rng.chance(1, 2) { for _ in 0..(1 + rng.below(3)) { let f = *rng.pick(&["-A", "-W", "-D", "-F"]); let l = *rng.pick(&["unused_variables", "dead_code", "warnings"]); groups.push(two(rng, f, l)); } }
    if rng.chance(1, 3) { groups.push({ let v_ = *rng.pick(&["always", "never"]); two(rng, "--color", v_) }); }
    if rng.chance(1, 4) { groups.push(two(rng, "--error-format", "json")); }
    if rng.chance(1, 4) { groups.push(two(rng, "--target", "x86_64-unknown-linux-gnu")); }
    if rng.chance(2, 3) { groups.push({ let v_ = *rng.pick(&["dep=deps/libdep.rlib", "dep=./deps/libdep.rlib"]); two(rng, "--extern", v_) }); if rng.chance(1, 2) { groups.push(two(rng, "--extern", "dep2=deps/libdep2.rlib")); } }
    else { groups.push(vec![b("--cfg"), b("nodep")]); }
    if rng.chance(1, 2) { groups.push({ let v_ = *rng.pick(&["dependency=deps", "deps", "native=nat"]); two(rng, "-L", v_) }); }
    for i in (1..groups.len()).rev() { let j = rng.below(i as u64 + 1) as usize; groups.swap(i, j); }
    let mut env: Vec<(Vec<u8>, Vec<u8>)> = vec![(b("PATH"), b("/usr/bin:/bin:/usr/local/bin"))];
    if rng.chance(1, 2) { env.push((b("MY_VAR"), b(*rng.pick(&["one", "two", "", "k=v1", "k=v2", "a=b=c", "=x"])))); }
    if rng.chance(1, 2) { env.push((b("CARGO_PKG_NAME"), b(*rng.pick(&["krate", "other"])))); }
    if rng.chance(1, 3) { env.push((b("CARGO_MAKEFLAGS"), b("-j --jobserver-fds=3,4"))); }
    if rng.chance(1, 3) { env.push((b("CARGO_REGISTRIES_ALT_TOKEN"), b("secret"))); }
    if rng.chance(1, 3) { env.push((b("CARGO_PKG_VERSION"), b("0.1.0"))); }
    if rng.chance(1, 4) { env.push((b("RUSTC_COLOR"), b("1"))); }
    if rng.chance(1, 3) { env.push((b("UNRELATED"), b("x"))); }
    if rng.chance(1, 3) { env.push((b("CARGOX"), b("not a cargo variable"))); }
    for i in (1..env.len()).rev() { let j = rng.below(i as u64 + 1) as usize; env.swap(i, j); }
    Case { argv: groups.into_iter().flatten().collect(), env }
}

fn main() {
    quiet_panics();
    let a: Vec<String> = std::env::args().collect();
    match a.get(1).map(|s| s.as_str()) {
        Some("gen") => {
            let n: u64 = a[2].parse().unwrap(); let mut rng = Rng::from_env();
            let mut reqs = std::io::BufWriter::new(std::fs::File::create(&a[3]).unwrap());
            let mut keys = std::io::BufWriter::new(std::fs::File::create(&a[4]).unwrap());
            let tmp = tempfile::tempdir().unwrap(); let cwd = tmp.path().join("crate"); std::fs::create_dir_all(cwd.join("src")).unwrap(); std::fs::create_dir_all(cwd.join("deps")).unwrap(); std::fs::create_dir_all(cwd.join("out")).unwrap(); std::fs::create_dir_all(cwd.join("out2")).unwrap(); std::fs::create_dir_all(cwd.join("nat")).unwrap();
            let write_world = |v: u32| {
                std::fs::write(cwd.join("src/lib.rs"), format!("mod m;\npub fn f() -> usize {{ m::g() + include_str!(\"data.txt\").len() + 2 * include_str!(\"data2.txt\").len() + option_env!(\"MY_VAR\").map(|s| s.len()).unwrap_or(0) + option_env!(\"CARGO_PKG_NAME\").map(|s| s.len()).unwrap_or(0) + {} }}\n#[cfg(not(nodep))] pub fn d() -> u32 {{ dep::d() }}\n", v)).unwrap();
                std::fs::write(cwd.join("src/m.rs"), "pub fn g() -> usize { 1 }\n").unwrap();
                std::fs::write(cwd.join("src/data.txt"), "data\n").unwrap();
                std::fs::write(cwd.join("src/data2.txt"), "other data\n").unwrap();
            };
            write_world(0);
            std::fs::write(cwd.join("dep.rs"), "pub fn d() -> u32 { 7 }\n").unwrap();
            let rustc = PathBuf::from(std::env::var("VERIF_RUSTC").unwrap_or_else(|_| {
                let o = std::process::Command::new("rustup").args(["which", "rustc"]).output(); match o { Ok(o) if o.status.success() => String::from_utf8_lossy(&o.stdout).trim().to_string(), _ => "/usr/local/cargo/bin/rustc".into() } }));
            for (name, out) in [("dep", "deps/libdep.rlib"), ("dep2", "deps/libdep2.rlib")] {
                let st = std::process::Command::new(&rustc).args(["--crate-name", name, "--crate-type", "rlib", "--edition=2021", "dep.rs", "-o", out]).current_dir(&cwd).status().unwrap(); assert!(st.success()); }
            let rt = tokio::runtime::Builder::new_multi_thread().worker_threads(4).enable_all().build().unwrap(); let pool = rt.handle().clone();
            let jobserver = JobClient::new_num(4); let creator = <ProcessCommandCreator as CommandCreatorSync>::new(&jobserver);
            let storage: Arc<dyn Storage> = Arc::new(NoStore);
            let base_env: Vec<(OsString, OsString)> = vec![("PATH".into(), "/usr/bin:/bin:/usr/local/bin".into())];
            let (compiler, _) = rt.block_on(get_compiler_info(creator.clone(), &rustc, &cwd, &[], &base_env, &pool, None)).expect("rustc detection");
            // components the model needs, computed here independently of the code under test
            let vv = std::process::Command::new(&rustc).arg("-vV").env_clear().envs(base_env.iter().cloned()).output().unwrap(); let version = String::from_utf8(vv.stdout).unwrap();
            let sysroot = String::from_utf8(std::process::Command::new(&rustc).arg("--print=sysroot").output().unwrap().stdout).unwrap().trim_end().to_string();
            let mut libs: Vec<PathBuf> = std::fs::read_dir(Path::new(&sysroot).join("lib")).unwrap().filter_map(|e| e.ok()).map(|e| e.path()).filter(|p| p.is_file() && p.extension().map(|e| e == "so").unwrap_or(false)).collect(); libs.sort();
            let digest = |p: &Path| -> Option<Vec<u8>> { rt.block_on(sccache::util::Digest::file(p, &pool)).ok().map(|s| s.into_bytes()) };
            let shlibs: Vec<Vec<u8>> = libs.iter().filter_map(|p| digest(p)).collect();
            let mut existing: Vec<Vec<u8>> = vec![];
            for e in walkdir::WalkDir::new(&cwd).into_iter().filter_map(|e| e.ok()).filter(|e| e.file_type().is_file()) { existing.push(e.path().as_os_str().as_bytes().to_vec()); }
            let mut fails: Vec<String> = vec![]; let mut samples = vec![]; let (mut keyed, mut uncacheable) = (0u64, 0u64);
            let mut key_of = |case: &Case, reqs: &mut dyn Write, keys: &mut dyn Write| -> Option<String> {
                let argv: Vec<OsString> = case.argv.iter().map(|x| std::os::unix::ffi::OsStringExt::from_vec(x.clone())).collect();
                let env: Vec<(OsString, OsString)> = case.env.iter().map(|(k, v)| (std::os::unix::ffi::OsStringExt::from_vec(k.clone()), std::os::unix::ffi::OsStringExt::from_vec(v.clone()))).collect();
                let real = match compiler.parse_arguments(&argv, &cwd, &env) {
                    CompilerArguments::Ok(hasher) => rt.block_on(hasher.generate_hash_key(&creator, cwd.clone(), env.clone(), false, &pool, false, storage.clone(), CacheControl::Default)).ok().map(|h| h.key),
                    _ => None };
                // the dep-info rustc writes for this command line (all arguments except --emit / --out-dir, as rustc is asked by sccache)
                let mut filt: Vec<OsString> = vec![]; let mut i = 0;
                while i < argv.len() { let s = argv[i].to_string_lossy().to_string();
                    if s == "--emit" || s == "--out-dir" { i += 2; continue; } if s.starts_with("--emit=") || s.starts_with("--out-dir=") { i += 1; continue; }
                    if s == "--color" { i += 2; continue; } if s.starts_with("--color=") { i += 1; continue; }
                    filt.push(argv[i].clone()); i += 1; }
                let depf = tmp.path().join("probe.d");
                let _ = std::process::Command::new(&rustc).args(&filt).args(["--emit", "dep-info", "-o"]).arg(&depf).env_clear().envs(env.iter().cloned()).current_dir(&cwd).output();
                let dep = std::fs::read_to_string(&depf).unwrap_or_default(); let _ = std::fs::remove_file(&depf);
                let sources = dep_sources(&dep, &cwd); let envdeps = dep_env(&dep);
                let mut files: Vec<(Vec<u8>, Vec<u8>)> = vec![];
                for p in existing.iter() { if let Some(d) = digest(Path::new(std::ffi::OsStr::from_bytes(p))) { files.push((p.clone(), d)); } }
                writeln!(reqs, "{}\t{}\t{}\t{}\t{}\t{}\t{}\t{}\t{}", hex(cwd.as_os_str().as_bytes()), hl(&case.argv), hl(&existing), pl(&case.env),
                    hl(&sources.iter().map(|p| p.as_os_str().as_bytes().to_vec()).collect::<Vec<_>>()), pl(&envdeps), pl(&files), hl(&shlibs), hex(version.as_bytes())).unwrap();
                writeln!(keys, "{}", real.clone().unwrap_or("none".into())).unwrap();
                real
            };
            for ci in 0..n {
                let case = gen_case(&mut rng);
                let k = key_of(&case, &mut reqs, &mut keys);
                let show = |c: &Case| format!("{}  env {}", c.argv.iter().map(|x| String::from_utf8_lossy(x).to_string()).collect::<Vec<_>>().join(" "), c.env.iter().map(|(k, v)| format!("{}={}", String::from_utf8_lossy(k), String::from_utf8_lossy(v))).collect::<Vec<_>>().join(" "));
                match &k { Some(_) => keyed += 1, None => uncacheable += 1 }
                if samples.len() < 2 && k.is_some() { samples.push(format!("{} => {}", show(&case), k.clone().unwrap())); }
                let k = match k { Some(k) => k, None => continue };
                // ---- metamorphic pairs on the real key
                match ci % 7 {
                    6 => { // the contents of two source files of the crate change places (same multiset of digests, different crate)
                        std::fs::write(cwd.join("src/data.txt"), "other data\n").unwrap(); std::fs::write(cwd.join("src/data2.txt"), "data\n").unwrap();
                        let c2 = Case { argv: case.argv.clone(), env: case.env.clone() };
                        let k2 = key_of(&c2, &mut reqs, &mut keys); write_world(0);
                        if k2.as_ref() == Some(&k) { fails.push(fail_json("key_blind_to_input", &format!("src/data.txt and src/data2.txt (both include_str!-ed) exchanged their contents: {}", show(&case)), &[], "")); } }
                    0 => { // reorder the --cfg / --extern / -L groups and the environment: same key
                        let mut groups: Vec<Vec<Vec<u8>>> = vec![]; let mut i = 0; let two = ["--cfg", "--extern", "-L", "--crate-name", "--crate-type", "--emit", "--out-dir", "-C", "--cap-lints", "--color", "--error-format", "--target"];
                        while i < case.argv.len() { if two.iter().any(|f| case.argv[i] == f.as_bytes()) { groups.push(vec![case.argv[i].clone(), case.argv[i + 1].clone()]); i += 2; } else { groups.push(vec![case.argv[i].clone()]); i += 1; } }
                        let mv = |g: &Vec<Vec<u8>>| g[0].starts_with(b"--cfg") || g[0].starts_with(b"--extern") || g[0].starts_with(b"-L");
                        let idx: Vec<usize> = (0..groups.len()).filter(|i| mv(&groups[*i])).collect(); let mut perm = idx.clone(); perm.reverse();
                        let mut g2 = groups.clone(); for (j, i) in idx.iter().enumerate() { g2[*i] = groups[perm[j]].clone(); }
                        let mut env2 = case.env.clone(); env2.reverse();
                        let c2 = Case { argv: g2.into_iter().flatten().collect(), env: env2 };
                        if let Some(k2) = key_of(&c2, &mut reqs, &mut keys) { if k2 != k { fails.push(fail_json("reordering_changes_key", &format!("{}  ||  {}", show(&case), show(&c2)), &[], "")); } } }
                    1 => { // a source edit: different key (and back)
                        write_world(1 + (ci as u32)); let c2 = Case { argv: case.argv.clone(), env: case.env.clone() };
                        let k2 = key_of(&c2, &mut reqs, &mut keys); write_world(0);
                        if k2.as_ref() == Some(&k) { fails.push(fail_json("key_blind_to_input", &format!("edit of src/lib.rs: {}", show(&case)), &[], "")); } }
                    2 => { // an env-dep the crate reads: MY_VAR
                        let mut env2: Vec<(Vec<u8>, Vec<u8>)> = case.env.iter().filter(|(k, _)| k != b"MY_VAR").cloned().collect(); env2.push((b"MY_VAR".to_vec(), if ci % 2 == 0 { format!("v{}", ci) } else { format!("profile=release;rev={}", ci) }.into_bytes()));      // every other value has '=' in it, the change lies behind it
                        let c2 = Case { argv: case.argv.clone(), env: env2 };
                        if key_of(&c2, &mut reqs, &mut keys).as_ref() == Some(&k) { fails.push(fail_json("key_blind_to_input", &format!("MY_VAR (read through option_env!) changed: {}", show(&case)), &[], "")); } }
                    3 => { // variables that must not matter
                        let mut env2 = case.env.clone(); env2.push((b"UNRELATED2".to_vec(), b"y".to_vec())); env2.retain(|(k, _)| k != b"CARGO_MAKEFLAGS" && k != b"CARGO_REGISTRIES_ALT_TOKEN"); env2.push((b"CARGO_MAKEFLAGS".to_vec(), format!("-j{}", ci).into_bytes()));
                        let c2 = Case { argv: case.argv.clone(), env: env2 };
                        if let Some(k2) = key_of(&c2, &mut reqs, &mut keys) { if k2 != k { fails.push(fail_json("irrelevant_env_changes_key", &format!("{}  ||  {}", show(&case), show(&c2)), &[], "")); } } }
                    4 if ci % 14 == 4 => { // two lint levels for one lint, in both orders: different compiles, different keys
                        let mut a1 = case.argv.clone(); a1.extend([b"-D".to_vec(), b"unused_mut".to_vec(), b"-A".to_vec(), b"unused_mut".to_vec()]);
                        let mut a2 = case.argv.clone(); a2.extend([b"-A".to_vec(), b"unused_mut".to_vec(), b"-D".to_vec(), b"unused_mut".to_vec()]);
                        let (c1, c2) = (Case { argv: a1, env: case.env.clone() }, Case { argv: a2, env: case.env.clone() });
                        let (k1, k2) = (key_of(&c1, &mut reqs, &mut keys), key_of(&c2, &mut reqs, &mut keys));
                        if k1.is_some() && k1 == k2 { fails.push(fail_json("lint_order_ignored", &format!("`-D unused_mut -A unused_mut` and `-A unused_mut -D unused_mut` (rustc: allowed / denied) share a key: {}  ||  {}", show(&c1), show(&c2)), &[], "")); } }
                    4 => { // a hashed argument changes
                        let mut argv2 = case.argv.clone(); argv2.push(b"-Ccodegen-units=3".to_vec());
                        let c2 = Case { argv: argv2, env: case.env.clone() };
                        if key_of(&c2, &mut reqs, &mut keys).as_ref() == Some(&k) { fails.push(fail_json("key_blind_to_input", &format!("added -Ccodegen-units=3: {}", show(&case)), &[], "")); } }
                    _ => { // a CARGO_ variable that counts
                        let mut env2: Vec<(Vec<u8>, Vec<u8>)> = case.env.iter().filter(|(k, _)| k != b"CARGO_PKG_AUTHORS").cloned().collect(); env2.push((b"CARGO_PKG_AUTHORS".to_vec(), format!("a{}", ci).into_bytes()));
                        let c2 = Case { argv: case.argv.clone(), env: env2 };
                        if key_of(&c2, &mut reqs, &mut keys).as_ref() == Some(&k) { fails.push(fail_json("key_blind_to_input", &format!("CARGO_PKG_AUTHORS changed: {}", show(&case)), &[], "")); } }
                }
            }
            std::fs::write(&a[5], format!("{{\"cases\":{},\"keyed\":{},\"uncacheable\":{},\"monitor_failures\":[{}],\"samples\":[{}]}}", n, keyed, uncacheable, fails.join(","), samples.iter().map(|s| jstr(s)).collect::<Vec<_>>().join(","))).unwrap();
        }
        Some("cmp") => {
            let rk = std::fs::read_to_string(&a[2]).unwrap(); let mp = std::fs::read_to_string(&a[3]).unwrap();
            let (rk, mp): (Vec<&str>, Vec<&str>) = (rk.lines().collect(), mp.lines().collect());
            let mut bad = 0; let mut distinct = std::collections::BTreeSet::new();
            if rk.len() != mp.len() { println!("MISMATCH line counts {} {}", rk.len(), mp.len()); bad += 1; }
            for i in 0..rk.len().min(mp.len()) {
                let mk = model_key(mp[i]).unwrap_or("none".into()); distinct.insert(mk.clone());
                if mk != rk[i] { bad += 1; if bad <= 3 { println!("MISMATCH line {}: real key {} model key {} ({})", i + 1, rk[i], mk, &mp[i][..mp[i].len().min(200)]); } }
            }
            println!("distinct_keys: {}", distinct.len()); println!("mismatches: {}", bad);
        }
        _ => { eprintln!("usage"); std::process::exit(2); }
    }
}
