//! C16: the real `jobserver::Client` (token pool + helper thread + oneshot hand-off) driven deterministically:
//! requests are registered by polling `acquire()` once, observed at quiescent points (`settle`), cancelled by dropping
//! the pending future, released by dropping the `Acquired`.  Trace for `modeld tokens` (`TokensM.tstep`); monitor:
//! never more than N holders, FIFO grants, full refill after every history (no leak), no N+1-th token.
//! usage: h_tokens gen <n_cases> <trace_out> <summary_out>
use futures::FutureExt;
use sccache::verif::JobClient;
use std::collections::BTreeMap;
use std::future::Future;
use std::io::Write;
use std::pin::Pin;
use std::time::Duration;
use verif_harness::*;

type Tok = Box<dyn std::any::Any>;
type Fut = Pin<Box<dyn Future<Output = Option<Tok>>>>;
fn acq(client: &'static JobClient) -> Fut { Box::pin(async move { client.acquire().await.ok().map(|t| Box::new(t) as Tok) }) }

fn main() {
    let a: Vec<String> = std::env::args().collect();
    let n_cases: u64 = a[2].parse().unwrap(); let mut rng = Rng::from_env();
    let mut tr = std::io::BufWriter::new(std::fs::File::create(&a[3]).unwrap());
    let rt = tokio::runtime::Builder::new_current_thread().enable_all().build().unwrap();
    let mut fails = vec![]; let mut samples = vec![]; let (mut steps, mut cancels, mut settles, mut contended) = (0u64, 0u64, 0u64, 0u64);
    for case in 0..n_cases {
        let n = 1 + rng.below(3) as usize;
        let client = JobClient::new_num(n);
        let client: &'static JobClient = Box::leak(Box::new(client));
        let mut pending: BTreeMap<u64, Fut> = BTreeMap::new(); let mut held: BTreeMap<u64, Tok> = BTreeMap::new();
        // a token handed over inside the very first poll (the helper thread won a microsecond race): the request counts as queued until the
        // next settle point, like every other request (the model grants at settle points only)
        let mut early: BTreeMap<u64, Tok> = BTreeMap::new();
        let mut next = 0u64; let mut lines = vec![format!("new {}", n)];
        let mut granted_order: Vec<u64> = vec![];
        let len = 6 + rng.below(16);
        let mut ops: Vec<String> = vec![];
        for _ in 0..len {
            match rng.below(10) {
                0..=3 => ops.push("request".into()),
                4 => ops.push(format!("cancel {}", rng.below(next.max(1) + 2))),
                5 | 6 => ops.push(format!("exit {}", rng.below(next.max(1) + 2))),
                _ => ops.push("settle".into()),
            }
            if ops.last().unwrap() == "request" { next += 1; }
        }
        ops.push("settle".into());
        next = 0;
        rt.block_on(async {
            for op in &ops {
                steps += 1;
                let t: Vec<&str> = op.split(' ').collect();
                match t[0] {
                    "request" => { let mut f: Fut = acq(client); let r = futures::poll!(f.as_mut());
                        if let std::task::Poll::Ready(Some(tok)) = r { early.insert(next, tok); } else { pending.insert(next, f); }
                        next += 1; lines.push("request -> - | -".into()); }
                    "cancel" => { let id: u64 = t[1].parse().unwrap(); if pending.remove(&id).is_some() || early.remove(&id).is_some() { cancels += 1; } lines.push(format!("cancel {} -> - | -", id)); }
                    "exit" => { let id: u64 = t[1].parse().unwrap(); held.remove(&id); lines.push(format!("exit {} -> - | -", id)); }
                    _ => {
                        settles += 1;
                        // quiescence: the helper thread hands tokens over asynchronously
                        for (id, tok) in std::mem::take(&mut early) { held.insert(id, tok); granted_order.push(id); }
                        for round in 0..40 {
                            // three rounds at least; more (up to half a second) only while a token is free and a request waits, i.e. the helper
                            // thread has not caught up yet (a loaded machine must not look like a lost token)
                            if round >= 3 && (pending.is_empty() || held.len() >= n) { break; }
                            tokio::time::sleep(Duration::from_millis(12)).await;
                            let ids: Vec<u64> = pending.keys().cloned().collect();
                            for id in ids { let f = pending.get_mut(&id).unwrap();
                                if let Some(Some(tok)) = f.as_mut().now_or_never() { pending.remove(&id); held.insert(id, tok); granted_order.push(id); } }
                        }
                        if !pending.is_empty() { contended += 1; }
                        let hs: Vec<String> = held.keys().map(|x| x.to_string()).collect(); let ps: Vec<String> = pending.keys().map(|x| x.to_string()).collect();
                        lines.push(format!("settle -> - | holders=[{}] waiting=[{}]", hs.join(","), ps.join(",")));
                        // ---- monitor: bound, and whoever still waits is younger than nobody who holds... (FIFO)
                        if held.len() > n { fails.push(fail_json("more_holders_than_tokens", &format!("{} holders with {} tokens", held.len(), n), &lines, "")); }
                        if !pending.is_empty() && held.len() < n { fails.push(fail_json("token_idle_while_waiting", &format!("{} of {} tokens held while requests {:?} wait", held.len(), n, pending.keys().collect::<Vec<_>>()), &lines, "")); }
                    }
                }
            }
            // ---- no leak: release everything, then exactly n tokens can be held again
            held.clear(); pending.clear(); early.clear();
            tokio::time::sleep(Duration::from_millis(25)).await;
            let mut toks = vec![];
            for _ in 0..n { match tokio::time::timeout(Duration::from_secs(5), acq(client)).await { Ok(Some(t)) => toks.push(t), _ => break } }
            let extra = tokio::time::timeout(Duration::from_millis(60), acq(client)).await.is_ok();
            lines.push(format!("refill -> - | refilled={} extra={}", toks.len(), extra));
            if toks.len() != n { fails.push(fail_json("token_leak", &format!("only {} of {} tokens can be acquired after the history", toks.len(), n), &lines, "")); }
            if extra { fails.push(fail_json("extra_token", &format!("{} + 1 tokens could be held", n), &lines, "")); }
            // ---- "at no time", however long a request has been waiting: with all n tokens held, a queued request must still be queued after
            //      a (simulated: tokio's clock is paused and advanced) day; no timer may let it through without a token
            if toks.len() == n && !extra {
                let mut f: Fut = acq(client); let _ = futures::poll!(f.as_mut());
                tokio::time::pause(); tokio::time::advance(Duration::from_secs(86_400)).await;
                let r = futures::poll!(f.as_mut()); tokio::time::resume();
                let through = matches!(r, std::task::Poll::Ready(Some(_)));
                lines.push(format!("longwait -> - | through={}", through));
                if through { fails.push(fail_json("request_let_through_without_token", &format!("a request that had waited a (simulated) day with all {} tokens held was let through", n), &lines, "")); }
            }
        });
        // FIFO among requests that were never cancelled: ids are granted in increasing order
        let mut sorted = granted_order.clone(); sorted.sort();
        if sorted != granted_order { fails.push(fail_json("not_fifo", &format!("grant order {:?}", granted_order), &lines, "")); }
        for l in &lines { writeln!(tr, "{}", l).unwrap(); }
        if samples.len() < 2 && case > 2 { samples.push(lines.join(" ; ")); }
    }
    std::fs::write(&a[4], format!("{{\"cases\":{},\"steps\":{},\"cancelled_while_queued\":{},\"settle_points\":{},\"settle_points_with_waiters\":{},\"monitor_failures\":[{}],\"samples\":[{}]}}",
        n_cases, steps, cancels, settles, contended, fails.join(","), samples.iter().map(|s| jstr(s)).collect::<Vec<_>>().join(","))).unwrap();
}
