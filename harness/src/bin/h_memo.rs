// Probe (design round): the per-path compiler memo of the real `SccacheService::compiler_info` under swap histories.
// For each request: which compiler digest went into the key (identified through ground-truth keys) and how many
// times the wrapper was run for detection. Output: one line per history: "<c,m c,m ...>\t<d d d ...>\t<detections ...>"
//! C12: the per-path compiler memo of the real `SccacheService::compiler_info` under swap histories of the binary at
//! one path (contents x mtimes), for `modeld memo`; monitor: within the property's hypothesis (binaries with equal
//! mtime have equal contents) the digest that went into the key is the digest of the binary then at the path.
//! usage: h_memo <n_histories> <trace_out> <summary_out>
use sccache::verif::*;
use verif_harness::*;
use std::io::Write;
use std::cell::Cell;
use std::ffi::OsString;
use std::sync::{Arc, Mutex};
use std::time::Duration;

struct KeyLog { keys: Mutex<Vec<String>> }
#[async_trait::async_trait]
impl Storage for KeyLog {
    async fn get(&self, key: &str) -> sccache::errors::Result<Cache> { self.keys.lock().unwrap().push(key.to_string()); Ok(Cache::Miss) }
    async fn put(&self, _key: &str, _entry: CacheWrite) -> sccache::errors::Result<Duration> { Ok(Duration::from_secs(0)) }
    fn location(&self) -> String { "keylog".into() }
    async fn current_size(&self) -> sccache::errors::Result<Option<u64>> { Ok(None) }
    async fn max_size(&self) -> sccache::errors::Result<Option<u64>> { Ok(None) }
}

fn main() {
    let rt = tokio::runtime::Builder::new_multi_thread().enable_all().worker_threads(4).build().unwrap();
    let pool = rt.handle().clone();
    let tmp = tempfile::tempdir().unwrap();
    let cwd = tmp.path().join("w"); std::fs::create_dir_all(&cwd).unwrap();
    std::fs::write(cwd.join("t.c"), "int f(void){return 1;}\n").unwrap();
    let log = tmp.path().join("cc.log");
    let bindir = tmp.path().join("bin"); std::fs::create_dir_all(&bindir).unwrap();
    let wrapper = bindir.join("gcc");
    let installs = Cell::new(0u32);
    let install = |content: u32, mtime: i64| {
        installs.set(installs.get() + 1);
        if installs.get() % 2 == 0 && wrapper.exists() {
            // every second time the file is overwritten in place (`cp new old`): same inode, same length, other contents
            std::fs::write(&wrapper, format!("#!/bin/sh\n# variant {}\necho run >> {}\nexec /usr/bin/gcc \"$@\"\n", content, log.display())).unwrap();
            filetime::set_file_mtime(&wrapper, filetime::FileTime::from_unix_time(1_600_000_000 + mtime, 0)).unwrap();
            return;
        }
        // otherwise the binary is replaced the way an installer does: new inode, then rename over the path
        let t = bindir.join(".new");
        std::fs::write(&t, format!("#!/bin/sh\n# variant {}\necho run >> {}\nexec /usr/bin/gcc \"$@\"\n", content, log.display())).unwrap();
        use std::os::unix::fs::PermissionsExt;
        std::fs::set_permissions(&t, std::fs::Permissions::from_mode(0o755)).unwrap();
        filetime::set_file_mtime(&t, filetime::FileTime::from_unix_time(1_600_000_000 + mtime, 0)).unwrap();
        std::fs::rename(&t, &wrapper).unwrap();
    };
    let env: Vec<(OsString, OsString)> = vec![("PATH".into(), "/usr/bin:/bin".into())];
    let args: Vec<OsString> = vec!["-c".into(), "t.c".into(), "-o".into(), "t.o".into()];
    let jobserver = JobClient::new_num(2);
    let new_service = || {
        let kl = Arc::new(KeyLog { keys: Mutex::new(vec![]) });
        let storage: Arc<dyn Storage> = kl.clone();
        let svc = sccache::server::SccacheService::<ProcessCommandCreator>::mock_with_storage(storage.clone(), pool.clone());
        (kl, storage, svc)
    };
    let creator = <ProcessCommandCreator as CommandCreatorSync>::new(&jobserver);
    // one request through the real memo; returns (key looked up, wrapper runs caused by compiler_info alone)
    let request = |svc: &sccache::server::SccacheService<ProcessCommandCreator>, kl: &Arc<KeyLog>, storage: &Arc<dyn Storage>| -> (String, usize) {
        let _ = std::fs::remove_file(&log);
        rt.block_on(async {
            let compiler = svc.compiler_info(wrapper.clone(), cwd.clone(), &args, &env).await.unwrap();
            let det = std::fs::read_to_string(&log).map(|s| s.lines().count()).unwrap_or(0);
            let hasher = match compiler.parse_arguments(&args, &cwd, &env) { CompilerArguments::Ok(h) => h, _ => panic!("parse") };
            let _ = hasher.get_cached_or_compile(svc, None, creator.clone(), storage.clone(), args.clone(), cwd.clone(), env.clone(), CacheControl::Default, pool.clone()).await;
            (kl.keys.lock().unwrap().last().unwrap().clone(), det)
        })
    };
    // ground truth: the key a fresh server computes for each content
    let mut truth = vec![];
    for c in 0..4u32 {
        install(c, 50);
        let (kl, st, svc) = new_service();
        truth.push(request(&svc, &kl, &st).0);
    }
    if truth.iter().collect::<std::collections::HashSet<_>>().len() != 4 {
        // not a harness precondition but the property itself: four different compilers (equal length, installed one after the other at one path) must not
        // share a key, not even across the servers of one process
        let a: Vec<String> = std::env::args().collect();
        let ops: Vec<String> = truth.iter().enumerate().map(|(c, k)| format!("wrapper variant {} installed at the compiler path (rename over it, mtime 50); a fresh server keys the request {}", c, k)).collect();
        let f = fail_json("different_compilers_same_key", "wrapper scripts with different contents installed one after the other at one path get the same key from fresh servers of this process (something outlives the server's own compiler memo)", &ops, "");
        std::fs::File::create(&a[2]).unwrap();
        std::fs::write(&a[3], format!("{{\"name_requests\":0,\"histories\":0,\"requests\":4,\"content_swaps\":3,\"histories_within_hypothesis\":0,\"redetections\":0,\"monitor_failures\":[{}],\"samples\":[]}}", f)).unwrap();
        return;
    }
    let rngc = std::cell::RefCell::new(Rng::from_env());
    let rnd = |n: u64| -> u64 { rngc.borrow_mut().below(n) };
    let a: Vec<String> = std::env::args().collect();
    let n_hist: usize = a[1].parse().unwrap();
    let mut tr = std::io::BufWriter::new(std::fs::File::create(&a[2]).unwrap());
    let mut fails: Vec<String> = vec![]; let mut samples: Vec<String> = vec![]; let (mut reqs, mut swaps, mut in_hyp, mut redetections) = (0u64, 0u64, 0u64, 0u64);
    let _ = Cell::new(0u8);
    for _ in 0..n_hist {
        let (kl, st, svc) = new_service();
        let len = 2 + rnd(6) as usize;
        let (mut hist, mut ds, mut dets) = (vec![], vec![], vec![]);
        let (mut c, mut m) = (rnd(4) as u32, rnd(3) as i64);
        for _ in 0..len {
            match rnd(4) { 0 => {}                                   // nothing changed
                           1 => { c = rnd(4) as u32; m = rnd(3) as i64; }   // replaced, any mtime (may repeat an old one)
                           2 => { c = rnd(4) as u32; }                      // replaced, mtime restored
                           _ => { m = rnd(3) as i64; } }                    // touched
            install(c, m);
            let (k, det) = request(&svc, &kl, &st);
            let d = truth.iter().position(|t| *t == k).map(|i| i.to_string()).unwrap_or("?".into());
            hist.push(format!("{},{}", c, m)); ds.push(d); dets.push(if det > 0 { "1" } else { "0" });
        }
        let line = format!("{}\t{}\t{}", hist.join(" "), ds.join(" "), dets.join(" "));
        writeln!(tr, "{}", line).unwrap();
        reqs += len as u64; redetections += dets.iter().filter(|d| **d == "1").count() as u64;
        let bins: Vec<(u32, i64)> = hist.iter().map(|h| { let mut p = h.split(','); (p.next().unwrap().parse().unwrap(), p.next().unwrap().parse().unwrap()) }).collect();
        swaps += bins.windows(2).filter(|w| w[0].0 != w[1].0).count() as u64;
        let hyp = bins.iter().all(|x| bins.iter().all(|y| x.1 != y.1 || x.0 == y.0));
        if hyp { in_hyp += 1;
            for (i, b) in bins.iter().enumerate() { if ds[i] != b.0.to_string() {
                fails.push(fail_json("stale_compiler_digest", &format!("request {} was keyed on compiler variant {} while variant {} was at the path (binaries with equal mtime have equal contents in this history)", i, ds[i], b.0), &[line.clone()], "")); break; } } }
        if samples.len() < 3 && swaps > 0 { samples.push(line.clone()); }
    }
    // ---- phase 2: several *names* for compilers against one server.  `gcc` and `g++` are symbolic links to one multicall wrapper (as the
    //      real drivers are links to one binary), `cc` is a third link to it, `alt/gcc` is a different file with the same file name.
    //      Monitor: memoisation is transparent — in every history each request gets the key a fresh server computes for that name.
    let multi = bindir.join("multicall-driver");
    std::fs::write(&multi, "#!/bin/sh\nexec /usr/bin/$(basename \"$0\") \"$@\"\n").unwrap();
    { use std::os::unix::fs::PermissionsExt; std::fs::set_permissions(&multi, std::fs::Permissions::from_mode(0o755)).unwrap(); }
    let names_dir = tmp.path().join("names"); std::fs::create_dir_all(names_dir.join("alt")).unwrap();
    let mut names: Vec<std::path::PathBuf> = vec![];
    for n in ["gcc", "g++", "cc"] { let p = names_dir.join(n); std::os::unix::fs::symlink(&multi, &p).unwrap(); names.push(p); }
    { let p = names_dir.join("alt/gcc"); std::fs::write(&p, "#!/bin/sh\n# another file called gcc\nexec /usr/bin/gcc \"$@\"\n").unwrap(); use std::os::unix::fs::PermissionsExt; std::fs::set_permissions(&p, std::fs::Permissions::from_mode(0o755)).unwrap(); names.push(p); }
    let request_as = |svc: &sccache::server::SccacheService<ProcessCommandCreator>, kl: &Arc<KeyLog>, storage: &Arc<dyn Storage>, exe: &std::path::Path| -> Option<String> {
        rt.block_on(async {
            let compiler = svc.compiler_info(exe.to_path_buf(), cwd.clone(), &args, &env).await.ok()?;
            let hasher = match compiler.parse_arguments(&args, &cwd, &env) { CompilerArguments::Ok(h) => h, _ => return None };
            let n0 = kl.keys.lock().unwrap().len();
            let _ = hasher.get_cached_or_compile(svc, None, creator.clone(), storage.clone(), args.clone(), cwd.clone(), env.clone(), CacheControl::Default, pool.clone()).await;
            let k = kl.keys.lock().unwrap(); if k.len() > n0 { k.last().cloned() } else { None }
        })
    };
    let fresh: Vec<Option<String>> = names.iter().map(|n| { let (kl, st, svc) = new_service(); request_as(&svc, &kl, &st, n) }).collect();
    let mut name_reqs = 0u64;
    for _ in 0..(n_hist / 4).max(3) {
        let (kl, st, svc) = new_service(); let len = 3 + rnd(5) as usize; let mut seq = vec![];
        for _ in 0..len { let i = rnd(names.len() as u64) as usize; let k = request_as(&svc, &kl, &st, &names[i]); name_reqs += 1;
            seq.push(names[i].strip_prefix(&names_dir).unwrap().display().to_string());
            if k != fresh[i] { fails.push(fail_json("memo_changes_key", &format!("after the requests [{}] on one server, the request through `{}` is keyed differently from the same request on a fresh server (the in-memory compiler entry of another name was used)", seq.join(", "), seq.last().unwrap()), &[seq.join(" ")], "")); break; } }
    }
    // distinct driver names must not collapse: gcc (C driver) and g++ (C++ driver) on the same .c file are different requests
    if fresh[0].is_some() && fresh[0] == fresh[1] { fails.push(fail_json("driver_names_share_key", "gcc and g++ (links to one multicall wrapper) get the same key for a .c file on fresh servers", &[], "")); }
    std::fs::write(&a[3], format!("{{\"name_requests\":{},\"histories\":{},\"requests\":{},\"content_swaps\":{},\"histories_within_hypothesis\":{},\"redetections\":{},\"monitor_failures\":[{}],\"samples\":[{}]}}",
        name_reqs, n_hist, reqs, swaps, in_hyp, redetections, fails.join(","), samples.iter().map(|s| jstr(s)).collect::<Vec<_>>().join(","))).unwrap();
}
