//! C17: the real `dist::TcCache` under histories of uploads (honest or not), removals, evictions (small capacity)
//! and reopenings, vs `modeld tc` (`TcM.tcStepFixed`), with the monitor "whatever is present under an id hashes to it".
//! One line per history:  steps separated by spaces \t store after each step as "id:content|-" for the 4 ids.
//! A step is `ev<j>/…/<op>`: the ids that vanished through LRU eviction during the operation, then the operation
//! (`iw<id>,<content><+|!>` upload with its result, `rm<id>`, `ro` reopen).
//! usage: h_tc gen <n> <trace_out> <summary_out> | h_tc replay <file with one ops line>
use sccache::dist::{TcCache, Toolchain};
use std::io::{Read, Write};
use verif_harness::*;

fn state(tc: &mut TcCache, ids: &[String], contents: &[Vec<u8>], fails: &mut Vec<(String, String)>) -> Vec<Option<usize>> {
    (0..4).map(|i| {
        let t = Toolchain { archive_id: ids[i].clone() };
        let has = tc.contains_toolchain(&t);
        match tc.get_file(&t) {
            Ok(mut f) => { let mut v = vec![]; f.read_to_end(&mut v).unwrap();
                let c = contents.iter().position(|x| *x == v);
                if c != Some(i) { fails.push(("foreign_toolchain".into(), format!("id {} is served with content {:?}", i, c))); }
                if !has { fails.push(("get_without_contains".into(), format!("id {}", i))); }
                c.or(Some(99)) }
            Err(_) => { if has { fails.push(("contains_without_file".into(), format!("id {} is reported present but cannot be read", i))); } None }
        }
    }).collect()
}

fn run(ops: &[(char, usize, usize)], cap: u64) -> (String, String, Vec<(String, String)>, u64) {
    // content 3 is the empty archive body (its id is the digest of the empty string): an upload may carry no bytes at all
    let contents: Vec<Vec<u8>> = (0..4u8).map(|i| if i == 3 { vec![] } else if i == 2 { b"c2 larger than the small capacity\n".to_vec() } else { vec![b'c', b'0' + i, b'\n'] }).collect();
    // content 2 does not fit a capacity of 7: its upload is refused for its size (`ix`), honest or not; `rO` reopens with a large capacity (the administrator raised the limit)
    let mut cap = cap;
    let ids: Vec<String> = contents.iter().map(|c| sccache::util::Digest::reader_sync(&c[..]).unwrap()).collect();
    let tmp = tempfile::tempdir().unwrap();
    let mut tc = TcCache::new(tmp.path(), cap).unwrap();
    let (mut steps, mut states, mut fails, mut evictions) = (vec![], vec![], vec![], 0u64);
    let mut prev: Vec<Option<usize>> = vec![None; 4];
    for &(k, i, c) in ops {
        let mut step = match k {
            'w' => { let data = contents[c].clone();
                let r = tc.insert_with(&Toolchain { archive_id: ids[i].clone() }, move |mut f| f.write_all(&data));
                let oversize = contents[c].len() as u64 > cap;
                if r.is_ok() != (i == c && !oversize) { fails.push(("wrong_upload_result".into(), format!("upload id {} content {} ({} bytes, capacity {}) returned {}", i, c, contents[c].len(), cap, if r.is_ok() { "Ok" } else { "Err" }))); }
                if oversize { format!("ix{},{}", i, c) } else { format!("iw{},{}{}", i, c, if r.is_ok() { "+" } else { "!" }) } }
            'r' => { let _ = tc.remove(&Toolchain { archive_id: ids[i].clone() }); format!("rm{}", i) }
            'O' => { drop(tc); cap = 1_000_000; tc = TcCache::new(tmp.path(), cap).unwrap(); "rO".into() }
            _ => { drop(tc); tc = TcCache::new(tmp.path(), cap).unwrap(); "ro".into() }
        };
        let st = state(&mut tc, &ids, &contents, &mut fails);
        // ids that were present and vanished without being the target of the operation were evicted
        for j in 0..4 { if prev[j].is_some() && st[j].is_none() && !(j == i && k != 'o' && k != 'O') { step = format!("ev{}/{}", j, step); evictions += 1; } }
        steps.push(step);
        states.push((0..4).map(|j| format!("{}:{}", j, st[j].map(|x| x.to_string()).unwrap_or("-".into()))).collect::<Vec<_>>().join(","));
        prev = st;
    }
    (steps.join(" "), states.join(" "), fails, evictions)
}

fn main() {
    let a: Vec<String> = std::env::args().collect();
    match a.get(1).map(|s| s.as_str()) {
        Some("gen") => {
            let n: u64 = a[2].parse().unwrap(); let mut rng = Rng::from_env();
            let mut tr = std::io::BufWriter::new(std::fs::File::create(&a[3]).unwrap());
            let (mut steps, mut dishonest, mut evs, mut nontrivial) = (0u64, 0u64, 0u64, 0u64);
            let mut fails = vec![]; let mut samples = vec![]; let mut distinct = std::collections::BTreeSet::new();
            for _ in 0..n {
                let cap = if rng.chance(1, 2) { 7 } else { 1_000_000 };
                let len = 2 + rng.below(9);
                let ops: Vec<(char, usize, usize)> = (0..len).map(|_| match rng.below(6) {
                    0..=3 => { let i = rng.below(4) as usize; let c = if rng.chance(1, 2) { i } else { rng.below(4) as usize }; ('w', i, c) }
                    4 => ('r', rng.below(4) as usize, 0), _ => (if rng.chance(1, 3) { 'O' } else { 'o' }, 0, 0) }).collect();
                let (s, st, f, ev) = run(&ops, cap);
                writeln!(tr, "{}\t{}", s, st).unwrap();
                steps += len; evs += ev; let d = ops.iter().filter(|o| o.0 == 'w' && o.1 != o.2).count() as u64; dishonest += d;
                if distinct.insert(s.clone()) && d > 0 { nontrivial += 1; }
                if samples.len() < 3 && d > 0 && ev > 0 { samples.push(format!("cap={} {} => {}", cap, s, st)); }
                for (k, dt) in f { fails.push(fail_json(&k, &dt, &[format!("{} {}", cap, s)], "")); }
            }
            std::fs::write(&a[4], format!("{{\"histories\":{},\"steps\":{},\"dishonest_uploads\":{},\"evictions\":{},\"distinct_nontrivial\":{},\"monitor_failures\":[{}],\"samples\":[{}]}}",
                n, steps, dishonest, evs, nontrivial, fails.join(","), samples.iter().map(|s| jstr(s)).collect::<Vec<_>>().join(","))).unwrap();
        }
        Some("replay") => {
            let s = std::fs::read_to_string(&a[2]).unwrap();
            let l = s.lines().find(|l| !l.starts_with('#') && !l.trim().is_empty()).unwrap();
            let mut t = l.split_whitespace(); let cap: u64 = t.next().unwrap().parse().unwrap();
            let ops: Vec<(char, usize, usize)> = t.map(|o| { let o = o.rsplit('/').next().unwrap();
                if let Some(r) = o.strip_prefix("iw").or(o.strip_prefix("ix")) { let r = r.trim_end_matches(|c| c == '+' || c == '!'); let mut p = r.split(','); ('w', p.next().unwrap().parse().unwrap(), p.next().unwrap().parse().unwrap()) }
                else if let Some(r) = o.strip_prefix("rm") { ('r', r.parse().unwrap(), 0) } else if o == "rO" { ('O', 0, 0) } else { ('o', 0, 0) } }).collect();
            let (s, st, f, _) = run(&ops, cap);
            println!("{}\n{}", s, st); for (k, d) in &f { println!("MONITOR-FAIL {} {}", k, d); }
            std::process::exit(if f.is_empty() { 0 } else { 1 });
        }
        Some("ids") => {
            // C19: adversarial toolchain ids on the real TcCache: every file created must stay under the cache root, nothing may panic
            verif_harness::quiet_panics();
            // (ids whose second byte is `/` would address the real file-system root: not probed, the scratch-confined ones show the same arithmetic)
            let mut ids: Vec<String> = ["", "a", "ab", "abcdef", "<ABS>", "../../escape", "..", "éé", "ab/../../../x", "0123456789abcdef0123456789abcdef0123456789abcdef0123456789abcdef"].iter().map(|s| s.to_string()).collect();
            // generated ids for the tie with the model of `valid_archive_id` (PathsM.validId): short, hex and not, separators, dots, non-ASCII
            let mut rng = Rng::from_env(); let alphabet = ["a", "f", "0", "9", "A", "F", "g", "G", ".", " ", "é", "Z", "_", "-", "b"];
            for _ in 0..150 { let n = rng.below(7); ids.push((0..n).map(|_| *rng.pick(&alphabet)).collect::<String>()); }
            let mut out = vec![];
            for id0 in ids.iter().map(|s| s.as_str()) {
                let tmp = tempfile::tempdir().unwrap(); let root = tmp.path().join("srv").join("tc"); std::fs::create_dir_all(&root).unwrap();
                let abs = format!("{}/abs-escape", tmp.path().canonicalize().unwrap().display());
                let id: &str = if id0 == "<ABS>" { &abs } else { id0 };
                let written: std::sync::Arc<std::sync::Mutex<Option<std::path::PathBuf>>> = Default::default();
                let w2 = written.clone(); let ran = std::sync::Arc::new(std::sync::atomic::AtomicBool::new(false)); let ran2 = ran.clone();
                let r = std::panic::catch_unwind(std::panic::AssertUnwindSafe(|| {
                    let mut tc = TcCache::new(&root, 1_000_000).unwrap();
                    let t = Toolchain { archive_id: id.to_string() };
                    let has = tc.contains_toolchain(&t);
                    // where does the upload really land? (the file may be removed again when its digest does not match)
                    let ins = tc.insert_with(&t, |mut f| { use std::os::fd::AsRawFd; ran2.store(true, std::sync::atomic::Ordering::SeqCst); *w2.lock().unwrap() = std::fs::read_link(format!("/proc/self/fd/{}", f.as_raw_fd())).ok(); f.write_all(b"payload") }).is_ok();
                    (has, ins)
                }));
                // anything created outside the cache root (but inside the scratch dir, which is all an escape with few `..` can reach)
                let mut outside = vec![];
                if let Some(p) = written.lock().unwrap().clone() { let canon = root.canonicalize().unwrap(); if !p.starts_with(&canon) { outside.push(format!("upload written to {}", p.display().to_string().replace(&tmp.path().canonicalize().unwrap().display().to_string(), "<scratch>"))); } }
                for e in walkdir::WalkDir::new(tmp.path()).into_iter().filter_map(|e| e.ok()) { if e.file_type().is_file() && !e.path().starts_with(&root) { outside.push(e.path().strip_prefix(tmp.path()).unwrap().display().to_string()); } }
                let abs_created = id.starts_with('/') && std::path::Path::new(id).exists();
                if abs_created { let _ = std::fs::remove_file(id); }
                let _ = abs_created;
                out.push(format!("{{\"hex\":\"{}\",\"accepted\":{},\"id\":{},\"panicked\":{},\"outside_root\":{}}}", hex_e(id.as_bytes()), ran.load(std::sync::atomic::Ordering::SeqCst), jstr(&id.replace(&tmp.path().canonicalize().unwrap().display().to_string(), "/<scratch>")), r.is_err(), jstr(&outside.join(","))));
            }
            println!("[{}]", out.join(","));
        }
        _ => std::process::exit(2),
    }
}
