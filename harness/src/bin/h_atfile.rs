//! C01 (response files): the real `gcc::ExpandIncludeFile` (the iterator every gcc / clang command line passes through before it
//! is parsed, hashed and re-synthesised) on generated file systems — plain files, files with quotes / backslashes / NUL / non-ASCII
//! white space / invalid UTF-8, nested, self-including and mutually including files, missing files, directories — next to what the
//! compiler's own expansion does with the same command line: libiberty's `expandargv`, observed through `c++filt` (binutils: it
//! expands its arguments with the same function and prints them one per line).
//! Trace for `modeld atfile` (`AtFileM.sccExpand` against the real iterator, `AtFileM.gccExpand` against c++filt);
//! monitor (the statement, without the model): whenever the real expansion leaves no `@` argument, it equals c++filt's output;
//! the iterator ends.
//! usage: h_atfile gen <n_cases> <trace_out> <summary_out>
use sccache::verif::gcc::ExpandIncludeFile;
use std::ffi::OsString;
use std::io::Write;
use std::os::unix::ffi::{OsStrExt, OsStringExt};
use verif_harness::*;

const NAMES: [&str; 6] = ["r", "s", "t", "u", "sub/x", "l"];

fn word(rng: &mut Rng) -> Vec<u8> {
    let first = b"abcdefgXYZ0123456789=+,:%/";
    let rest = b"abcdefgXYZ0123456789=+,:%/-_.@#";
    let n = 1 + rng.below(6); let mut w = vec![*rng.pick(first)];
    for _ in 1..n { w.push(*rng.pick(rest)); }
    if rng.chance(1, 12) { w.extend_from_slice("é".as_bytes()); }
    w
}
fn space(rng: &mut Rng, exotic: bool) -> Vec<u8> {
    let plain: [&[u8]; 8] = [b" ", b" ", b"  ", b"\n", b"\t", b"\r\n", b"\x0b", b"\x0c"];
    let odd: [&[u8]; 5] = ["\u{a0}".as_bytes(), "\u{2003}".as_bytes(), "\u{85}".as_bytes(), "\u{3000}".as_bytes(), "\u{2028}".as_bytes()];
    if exotic && rng.chance(1, 3) { rng.pick(&odd).to_vec() } else { rng.pick(&plain).to_vec() }
}
/// contents of one response file; `flavour`: 0 plain, 1 quotes/backslashes, 2 exotic white space, 3 NUL / invalid UTF-8, 4 only white space / empty
fn contents(rng: &mut Rng, flavour: u64) -> Vec<u8> {
    let mut c = vec![];
    if flavour == 4 { for _ in 0..rng.below(4) { c.extend(space(rng, false)); } return c; }
    if rng.chance(1, 3) { c.extend(space(rng, flavour == 2)); }
    for i in 0..(1 + rng.below(5)) {
        if i > 0 { c.extend(space(rng, flavour == 2)); }
        match rng.below(10) {
            0 | 1 => { c.push(b'@'); c.extend_from_slice(rng.pick(&NAMES).as_bytes()); }
            2 => { c.push(b'@'); c.extend_from_slice(if rng.chance(1, 2) { b"missing" } else { b"d" }); }
            _ => c.extend(word(rng)),
        }
        if flavour == 1 { match rng.below(6) {
            0 => { c.extend_from_slice(b"\\"); c.extend(word(rng)); }
            1 => { c.extend_from_slice(b"'"); c.extend(word(rng)); c.extend(space(rng, false)); c.extend(word(rng)); if rng.chance(4, 5) { c.extend_from_slice(b"'"); } }
            2 => { c.extend_from_slice(b"\""); c.extend(word(rng)); c.extend_from_slice(b"\\\""); c.extend(space(rng, false)); if rng.chance(4, 5) { c.extend_from_slice(b"\""); } }
            3 => c.extend_from_slice(b"\\ "),
            4 => c.extend_from_slice(b"\\\\"),
            _ => {} } }
        if flavour == 3 { match rng.below(3) { 0 => { c.push(0); c.extend(word(rng)); } 1 => { c.push(0xff); } _ => { c.extend_from_slice(&[0xc3]); } } }
    }
    if rng.chance(1, 2) { c.extend(space(rng, flavour == 2)); }
    c
}

fn main() {
    let a: Vec<String> = std::env::args().collect();
    if a.get(1).map(|s| s.as_str()) != Some("gen") { eprintln!("usage: h_atfile gen <n_cases> <trace_out> <summary_out>"); std::process::exit(2); }
    let n_cases: u64 = a[2].parse().unwrap(); let mut rng = Rng::from_env();
    let mut tr = std::io::BufWriter::new(std::fs::File::create(&a[3]).unwrap());
    let have_oracle = std::process::Command::new("c++filt").arg("--version").output().map(|o| o.status.success()).unwrap_or(false);
    let mut fails: Vec<String> = vec![]; let mut samples = vec![];
    // watchdog: an expansion that neither ends nor produces anything (a response file that is nothing but its own name, on a tree without the
    // bound of fix F-C01-h) would hang the run; after 20 s in one case the summary is written with that case as the failing input
    let current: std::sync::Arc<std::sync::Mutex<(u64, Vec<String>, std::time::Instant)>> = std::sync::Arc::new(std::sync::Mutex::new((0, vec![], std::time::Instant::now())));
    { let current = current.clone(); let out = a[4].clone(); let n = n_cases;
      std::thread::spawn(move || loop { std::thread::sleep(std::time::Duration::from_secs(1));
          let g = current.lock().unwrap();
          if g.2.elapsed().as_secs() >= 20 {
              let f = fail_json("expansion_does_not_end", "ExpandIncludeFile did not return within 20 s on a command line whose response files include themselves or each other (the compiler stops with 'too many @-files encountered')", &g.1, "");
              std::fs::write(&out, format!("{{\"cases\":{},\"oracle_available\":true,\"fully_expanded\":0,\"kept_an_at_argument\":0,\"compiler_side_error_exits\":0,\"deep_expansions\":0,\"budget_exhausted\":0,\"files_plain\":0,\"files_quoted\":0,\"files_exotic_space\":0,\"files_nul_or_bad_utf8\":0,\"files_blank\":0,\"aborted_in_case\":{},\"monitor_failures\":[{}],\"samples\":[]}}", n, g.0, f)).unwrap();
              std::process::exit(0); } }); }
    let (mut fully_expanded, mut kept_at, mut oracle_err, mut files_read_deep, mut budget_hit) = (0u64, 0u64, 0u64, 0u64, 0u64); let mut flav = [0u64; 5];
    for case in 0..n_cases {
        let dir = tempfile::tempdir().unwrap(); let cwd = dir.path();
        std::fs::create_dir(cwd.join("sub")).unwrap(); std::fs::create_dir(cwd.join("d")).unwrap();
        let mut lines = vec!["new".to_string(), format!("D {}", hex(b"d")), format!("D {}", hex(b"sub"))];
        // every tenth case is about nesting depth: files that include themselves or each other
        let looping = case % 10 == 9;
        for name in NAMES.iter() {
            if !looping && rng.chance(1, 4) { continue; }
            let f = if looping { 0 } else { match rng.below(10) { 0..=4 => 0, 5 | 6 => 1, 7 => 2, 8 => 3, _ => 4 } }; flav[f as usize] += 1;
            let mut c = contents(&mut rng, f);
            if looping && *name == "l" { c = match rng.below(3) { 0 => b"w @l".to_vec(), 1 => b"@r @l".to_vec(), _ => b"@l".to_vec() }; }
            std::fs::write(cwd.join(name), &c).unwrap();
            lines.push(format!("F {} {}", hex(name.as_bytes()), hex_e(&c)));
        }
        let mut args: Vec<Vec<u8>> = vec![];
        for _ in 0..(1 + rng.below(4)) { match rng.below(8) {
            0..=3 => { let mut x = b"@".to_vec(); x.extend_from_slice(if looping && rng.chance(1, 2) { "l" } else { rng.pick(&NAMES) }.as_bytes()); args.push(x); }
            4 => args.push(if rng.chance(1, 2) { b"@missing".to_vec() } else if rng.chance(1, 2) { b"@d".to_vec() } else { b"@".to_vec() }),
            _ => args.push(word(&mut rng)) } }
        let os_args: Vec<OsString> = args.iter().map(|x| OsString::from_vec(x.clone())).collect();
        { let mut g = current.lock().unwrap(); let mut v = lines.clone(); v.push(format!("args {}", args.iter().map(|x| String::from_utf8_lossy(x).to_string()).collect::<Vec<_>>().join(" "))); *g = (case, v, std::time::Instant::now()); }
        // ---- the real iterator (capped: on the pinned tree a self-including file produced arguments for ever)
        let got: Vec<Vec<u8>> = ExpandIncludeFile::new(cwd, &os_args).take(200_001).map(|x| x.as_bytes().to_vec()).collect();
        let ops = |lines: &Vec<String>| { let mut v = lines.clone(); v.push(format!("args {}", args.iter().map(|x| String::from_utf8_lossy(x).to_string()).collect::<Vec<_>>().join(" "))); v };
        if got.len() > 200_000 { fails.push(fail_json("expansion_does_not_end", "ExpandIncludeFile produced more than 200 000 arguments for a command line with response files that include themselves or each other (the compiler stops with 'too many @-files encountered')", &ops(&lines), "")); continue; }
        let scc = if got.is_empty() { "-".to_string() } else { got.iter().map(|x| hex_e(x)).collect::<Vec<_>>().join(",") };
        let any_at = got.iter().any(|x| x.first() == Some(&b'@'));
        if any_at { kept_at += 1; } else { fully_expanded += 1; }
        if got.len() > 1500 { budget_hit += 1; }
        if got.len() > args.len() + 6 { files_read_deep += 1; }
        // ---- the compiler's own expansion, through c++filt
        let gcc = if !have_oracle { "?".to_string() } else {
            let o = std::process::Command::new("c++filt").args(&os_args).current_dir(cwd).stdin(std::process::Stdio::null()).output().unwrap();
            if o.status.success() { format!("O:{}", hex_e(&o.stdout)) } else { oracle_err += 1; "ERR".to_string() } };
        if !any_at && gcc != "?" {
            let mine: Vec<u8> = got.iter().flat_map(|x| { let mut y = x.clone(); y.push(b'\n'); y }).collect();
            if gcc != format!("O:{}", hex_e(&mine)) {
                let shown = if gcc == "ERR" { "an error exit".to_string() } else { format!("{:?}", String::from_utf8_lossy(&unhex(&gcc[2..]))) };
                fails.push(fail_json("expansion_differs_from_compiler", &format!("sccache expands the command line to {:?} (nothing left to refuse), libiberty's expandargv gives {}", got.iter().map(|x| String::from_utf8_lossy(x).to_string()).collect::<Vec<_>>(), shown), &ops(&lines), "")); } }
        lines.push(format!("R 2000 {} | {} | {}", if args.is_empty() { "-".to_string() } else { args.iter().map(|x| hex_e(x)).collect::<Vec<_>>().join(",") }, scc, gcc));
        for l in &lines { writeln!(tr, "{}", l).unwrap(); }
        if samples.len() < 3 && !any_at && got.len() > args.len() { samples.push(ops(&lines).join(" ; ").chars().take(600).collect::<String>()); }
    }
    tr.flush().unwrap();
    std::fs::write(&a[4], format!("{{\"cases\":{},\"oracle_available\":{},\"fully_expanded\":{},\"kept_an_at_argument\":{},\"compiler_side_error_exits\":{},\"deep_expansions\":{},\"budget_exhausted\":{},\"files_plain\":{},\"files_quoted\":{},\"files_exotic_space\":{},\"files_nul_or_bad_utf8\":{},\"files_blank\":{},\"monitor_failures\":[{}],\"samples\":[{}]}}",
        n_cases, have_oracle, fully_expanded, kept_at, oracle_err, files_read_deep, budget_hit, flav[0], flav[1], flav[2], flav[3], flav[4], fails.join(","), samples.iter().map(|s| jstr(s)).collect::<Vec<_>>().join(","))).unwrap();
}
