//! C07/C06/C15 correspondence + monitor harness for `lru_disk_cache::LruDiskCache` (real code, real files).
//!
//! usage: h_lru gen <n_cases> <trace_out> <summary_out>      (seed from VERIF_SEED)
//!        h_lru replay <ops_file>                             (prints the trace of one case, exit 1 on monitor failure)
//!
//! Trace line: `<op> <args> -> <result> | <canonical observation>`; `modeld lru` replays the part before `->` on
//! the Lean model `LruM.Lru` and compares result and observation.  The monitor evaluates C07 on the
//! implementation itself after every step.
use sccache::lru_disk_cache::{Error, LruDiskCache, LruDiskCacheAddEntry};
use std::collections::BTreeMap;
use std::io::Write;
use std::path::{Path, PathBuf};
use verif_harness::*;

const NKEYS: u64 = 4;
fn keyname(k: u64) -> String { format!("{}/x/key{}", k, k) }

#[derive(Clone, Debug, PartialEq)]
enum Op { Ins(u64, u64), Prep(u64, u64), Write(u64, u64), Commit(u64), Drop(u64), Get(u64), Rm(u64), Xdel(u64), Xadd(u64, u64), Reopen, Slow }

fn op_str(o: &Op) -> String {
    match o {
        Op::Ins(k, n) => format!("ins {} {}", k, n), Op::Prep(k, n) => format!("prep {} {}", k, n),
        Op::Write(h, m) => format!("write {} {}", h, m), Op::Commit(h) => format!("commit {}", h),
        Op::Drop(h) => format!("drop {}", h), Op::Get(k) => format!("get {}", k), Op::Rm(k) => format!("rm {}", k),
        Op::Xdel(k) => format!("xdel {}", k), Op::Xadd(k, n) => format!("xadd {} {}", k, n), Op::Reopen => "reopen".into(), Op::Slow => "nop".into(),
    }
}
fn parse_op(l: &str) -> Option<Op> {
    let t: Vec<&str> = l.split_whitespace().collect();
    let n = |i: usize| t.get(i).and_then(|x| x.parse::<u64>().ok());
    Some(match *t.first()? {
        "ins" => Op::Ins(n(1)?, n(2)?), "prep" => Op::Prep(n(1)?, n(2)?), "write" => Op::Write(n(1)?, n(2)?),
        "commit" => Op::Commit(n(1)?), "drop" => Op::Drop(n(1)?), "get" => Op::Get(n(1)?), "rm" => Op::Rm(n(1)?),
        "xdel" => Op::Xdel(n(1)?), "xadd" => Op::Xadd(n(1)?, n(2)?), "reopen" => Op::Reopen, "nop" => Op::Slow, _ => return None,
    })
}

#[derive(Clone, Debug)]
struct Fail { kind: String, detail: String }

struct Outcome { lines: Vec<String>, fails: Vec<Fail>, evictions: u64, panics: u64, results: BTreeMap<String, u64> }

fn res_str<T>(r: &std::thread::Result<Result<T, Error>>) -> &'static str {
    match r { Ok(Ok(_)) => "ok", Ok(Err(Error::FileTooLarge)) => "tooLarge", Ok(Err(Error::FileNotInCache)) => "notInCache", Ok(Err(Error::Io(_))) => "ioErr", Err(_) => "panic" }
}

fn disk_files(root: &Path) -> (BTreeMap<u64, u64>, usize, Vec<String>) {
    // (key -> size of non-temporary files, number of temp files, unexpected names)
    let mut m = BTreeMap::new(); let mut temps = 0; let mut other = vec![];
    for e in walkdir::WalkDir::new(root).into_iter().filter_map(|e| e.ok()) {
        if !e.file_type().is_file() { continue; }
        let name = e.file_name().to_string_lossy().to_string();
        if name.starts_with(".sccachetmp") { temps += 1; continue; }
        let rel = e.path().strip_prefix(root).unwrap().to_string_lossy().to_string();
        match (0..NKEYS).find(|k| keyname(*k) == rel) { Some(k) => { m.insert(k, e.metadata().unwrap().len()); } None => other.push(rel) }
    }
    (m, temps, other)
}

/// files oldest-mtime first, exactly as `get_all_files` orders them (stable sort of the WalkDir order)
fn mtime_order(root: &Path) -> Vec<(u64, u64)> {
    let mut v: Vec<(std::time::SystemTime, u64, u64)> = vec![];
    for e in walkdir::WalkDir::new(root).into_iter().filter_map(|e| e.ok()) {
        if !e.file_type().is_file() { continue; }
        let rel = e.path().strip_prefix(root).unwrap().to_string_lossy().to_string();
        if let Some(k) = (0..NKEYS).find(|k| keyname(*k) == rel) { let md = e.metadata().unwrap(); v.push((md.modified().unwrap(), k, md.len())); }
    }
    v.sort_by_key(|x| x.0);
    v.into_iter().map(|x| (x.1, x.2)).collect()
}

fn run_case(cap: u64, ops: &[Op]) -> Outcome {
    let dir = tempfile::tempdir().unwrap();
    let root: PathBuf = dir.path().join("cache");
    let mut cache = Some(LruDiskCache::new(root.clone(), cap).unwrap());
    let mut handles: BTreeMap<u64, (LruDiskCacheAddEntry, u64, u64)> = BTreeMap::new(); // handle -> (entry, key, reserved)
    let mut next_handle = 0u64;
    let mut out = Outcome { lines: vec![format!("new {}", cap)], fails: vec![], evictions: 0, panics: 0, results: BTreeMap::new() };
    let mut xdeleted: Vec<u64> = vec![];      // keys whose file the harness removed behind the cache's back
    let mut xadded: Vec<u64> = vec![];        // keys whose file the harness wrote behind the cache's back (unknown to the index until a reopen)
    let mut leaked: u64 = 0;                  // reservations of dropped / failed entries (never released by the pinned code)
    let mut slow = false;
    let mut prev_entries: Option<(String, BTreeMap<u64, u64>)> = None;
    let mut written: BTreeMap<u64, u64> = BTreeMap::new();      // handle -> bytes written into its temp file so far
    // logical instant of the last *use* of each key, only used by the slow-mode mtime monitor. A two-phase store
    // counts as used when its body was last written (that is what its mtime records), not when it was committed.
    let mut stamp: BTreeMap<u64, u64> = BTreeMap::new(); let mut hstamp: BTreeMap<u64, u64> = BTreeMap::new(); let mut tick = 0u64;
    for op in ops {
        if slow { std::thread::sleep(std::time::Duration::from_millis(12)); }
        let files_before = if matches!(op, Op::Get(_)) { Some(disk_files(&root).0) } else { None };
        let c = cache.as_mut().unwrap();
        let before_len = c.len(); tick += 1;
        let mut extra = String::new();
        let res: &'static str = match op {
            Op::Slow => { slow = true; "-" }
            Op::Ins(k, n) => { let bytes = vec![b'x'; *n as usize];
                let r = std::panic::catch_unwind(std::panic::AssertUnwindSafe(|| c.insert_bytes(keyname(*k), &bytes)));
                if matches!(r, Ok(Ok(_))) { xdeleted.retain(|x| x != k); xadded.retain(|x| x != k); stamp.insert(*k, tick); } res_str(&r) }
            Op::Prep(k, n) => {
                let r = std::panic::catch_unwind(std::panic::AssertUnwindSafe(|| c.prepare_add(keyname(*k), *n)));
                let s = res_str(&r);
                if let Ok(Ok(e)) = r { handles.insert(next_handle, (e, *k, *n)); hstamp.insert(next_handle, tick); next_handle += 1; }
                s }
            Op::Write(h, m) => { if let Some((e, _, _)) = handles.get_mut(h) { e.as_file_mut().write_all(&vec![b'y'; *m as usize]).unwrap(); *written.entry(*h).or_insert(0) += *m; if *m > 0 { hstamp.insert(*h, tick); } } "-" }
            Op::Commit(h) => match handles.remove(h) {
                None => "ioErr",
                Some((e, k, reserved)) => {
                    let r = std::panic::catch_unwind(std::panic::AssertUnwindSafe(|| c.commit(e)));
                    if matches!(r, Ok(Ok(_))) { xdeleted.retain(|x| *x != k); xadded.retain(|x| *x != k); stamp.insert(k, hstamp[h]); } else { leaked += reserved; }
                    res_str(&r) } },
            Op::Drop(h) => { if let Some((e, _, reserved)) = handles.remove(h) { drop(e); leaked += reserved; extra = "dropped".into(); } "-" }
            Op::Get(k) => { let r = std::panic::catch_unwind(std::panic::AssertUnwindSafe(|| c.get_file(keyname(*k))));
                if matches!(r, Ok(Ok(_))) { stamp.insert(*k, tick); } res_str(&r) }
            Op::Rm(k) => { let r = std::panic::catch_unwind(std::panic::AssertUnwindSafe(|| c.remove(keyname(*k)))); res_str(&r) }
            Op::Xdel(k) => { if std::fs::remove_file(root.join(keyname(*k))).is_ok() { xdeleted.push(*k); } "-" }
            // another process sharing the directory stores an entry: written (atomically) behind this cache's back
            Op::Xadd(k, n) => { let p = root.join(keyname(*k)); std::fs::create_dir_all(p.parent().unwrap()).unwrap(); let t = root.join("xadd.tmp"); std::fs::write(&t, vec![b'z'; *n as usize]).unwrap(); std::fs::rename(&t, &p).unwrap();
                xdeleted.retain(|x| x != k); if !xadded.contains(k) { xadded.push(*k); } stamp.insert(*k, tick); "-" }
            Op::Reopen => {
                handles.clear(); leaked = 0;               // temp files of live handles disappear with their owners
                cache = None;
                let order = mtime_order(&root);
                if slow {
                    // C07 "recency survives a restart": with >10 ms between operations the mtime order must be the use order
                    let disk_order: Vec<u64> = order.iter().map(|x| x.0).collect();
                    let mut expect: Vec<u64> = disk_order.clone(); expect.sort_by_key(|k| stamp.get(k).cloned().unwrap_or(0));
                    if disk_order != expect { out.fails.push(Fail { kind: "recency_not_persisted".into(), detail: format!("mtime order {:?} but use order {:?}", disk_order, expect) }); }
                }
                extra = order.iter().map(|(k, n)| format!("{}:{}", k, n)).collect::<Vec<_>>().join(",");
                cache = Some(LruDiskCache::new(root.clone(), cap).unwrap());
                xdeleted.clear(); xadded.clear();
                "-" }
        };
        *out.results.entry(res.to_string()).or_insert(0) += 1;
        let c = cache.as_ref().unwrap();
        if res == "panic" {
            out.panics += 1;
            out.lines.push(format!("{} -> panic | poisoned", op_str(op)));
            // classify: the only panic the pinned code is known to raise is the over-reservation one (F-C07-a)
            let reserved: u64 = handles.values().map(|h| h.2).sum::<u64>() + leaked;
            out.fails.push(Fail { kind: "panic".into(), detail: format!("op={} cap={} len_before={} outstanding_reservations={}", op_str(op), cap, before_len, reserved) });
            break;
        }
        if c.len() < before_len && !matches!(op, Op::Rm(_) | Op::Reopen) { out.evictions += 1; }
        // ---- observation
        let (files, ntemps, other) = disk_files(&root);
        // C15 / C07: a lookup is not a store — it never creates, removes or resizes an entry file and never evicts
        if let Some(fb) = &files_before { if *fb != files || c.len() < before_len {
            out.fails.push(Fail { kind: "lookup_changed_entries".into(), detail: format!("{} changed the entry files from {:?} to {:?} (index {} -> {} entries)", op_str(op), fb, files, before_len, c.len()) }); } }
        let cont: String = (0..NKEYS).map(|k| if c.contains_key(keyname(k)) { '1' } else { '0' }).collect();
        let fl: Vec<String> = files.iter().map(|(k, n)| format!("{}:{}", k, n)).collect();
        let obs = format!("size={} len={} contains={} files={}", c.size(), c.len(), cont, fl.join(","));
        // C07: an entry that is refused because it cannot fit is refused *without disturbing the entries that are there*
        // (the statement speaks of an entry *larger than the whole cache*; a store refused because of other in-flight reservations may have evicted on the way)
        let oversize = match op { Op::Ins(_, n) | Op::Prep(_, n) => *n > cap, Op::Commit(h) => written.get(h).copied().unwrap_or(0) > cap, _ => false };
        if res == "tooLarge" && oversize { if let Some((pc, pf)) = &prev_entries {
            let opkey: Option<u64> = match op { Op::Ins(k, _) | Op::Prep(k, _) => Some(*k), _ => None };
            let lost: Vec<u64> = (0..NKEYS).filter(|k| Some(*k) != opkey && pc.as_bytes()[*k as usize] == b'1' && (cont.as_bytes()[*k as usize] != b'1' || (pf.contains_key(k) && !files.contains_key(k)))).collect();
            if !lost.is_empty() { out.fails.push(Fail { kind: "refused_store_evicted_entries".into(), detail: format!("{} was refused (too large) and yet the entries of keys {:?} are gone", op_str(op), lost) }); } } }
        prev_entries = Some((cont.clone(), files.clone()));
        let opline = if matches!(op, Op::Reopen) && !extra.is_empty() { format!("reopen {}", extra) } else { op_str(op) };
        out.lines.push(format!("{} -> {} | {}", opline, res, obs));
        // ---- monitor: C07 evaluated on the implementation
        if c.size() > c.capacity() { out.fails.push(Fail { kind: "over_capacity".into(), detail: format!("size()={} > capacity={} after {}", c.size(), cap, op_str(op)) }); }
        let mut indexed_bytes = 0u64;
        for k in 0..NKEYS {
            let inx = c.contains_key(keyname(k));
            match (inx, files.get(&k)) {
                (true, None) if !xdeleted.contains(&k) => out.fails.push(Fail { kind: "indexed_file_missing".into(), detail: format!("key={} after {}", k, op_str(op)) }),
                (false, Some(_)) if !xadded.contains(&k) => out.fails.push(Fail { kind: "orphan_file".into(), detail: format!("key={} after {}", k, op_str(op)) }),
                (true, Some(n)) => indexed_bytes += n,
                _ => {} }
        }
        if !other.is_empty() { out.fails.push(Fail { kind: "foreign_file".into(), detail: format!("{:?}", other) }); }
        if ntemps != handles.len() { out.fails.push(Fail { kind: "temp_file_count".into(), detail: format!("{} temp files, {} live handles after {}", ntemps, handles.len(), op_str(op)) }); }
        let live: u64 = handles.values().map(|h| h.2).sum();
        if xdeleted.is_empty() && xadded.is_empty() && c.size() != indexed_bytes + live {
            if c.size() == indexed_bytes + live + leaked && leaked > 0 { if !out.fails.iter().any(|f| f.kind == "reservation_leak") { out.fails.push(Fail { kind: "reservation_leak".into(), detail: format!("leaked={} after {}", leaked, op_str(op)) }); } }
            else { out.fails.push(Fail { kind: "size_accounting".into(), detail: format!("size()={} indexed_bytes={} live_reservations={} leaked={} after {}", c.size(), indexed_bytes, live, leaked, op_str(op)) }); }
        }
        // a leaked reservation (F-C07-c) does not stop the case: the rest of the sequence is still compared and monitored
        if out.fails.iter().any(|f| f.kind != "reservation_leak") { break; }
    }
    out
}

fn gen_case(rng: &mut Rng) -> (u64, Vec<Op>) {
    let cap = *rng.pick(&[4u64, 6, 8, 10, 16]);
    let sizes = [0, 1, 1, 2, cap / 2, cap / 2 + 1, cap - 1, cap, cap + 1];
    let n = 3 + rng.below(13);
    let mut ops = vec![];
    if rng.chance(1, 50) {
        // recency family (C07 "a lookup counts as use and recency survives a restart"): timed history of small stores and lookups of
        // *present* keys, then a reopen (mtime order must be the use order), then a store that needs space (evicts the true LRU entry)
        ops.push(Op::Slow);
        let nk = 2 + rng.below(NKEYS - 1); let mut present: Vec<u64> = vec![];
        for k in 0..nk { if rng.chance(1, 3) { ops.push(Op::Prep(k, 1)); } else { ops.push(Op::Ins(k, 1)); } present.push(k); }
        // two-phase stores of this family are completed at once (handles are numbered in order of prepare)
        let mut out = vec![Op::Slow]; let mut h = 0u64;
        for o in ops.drain(1..) { match o { Op::Prep(k, n) => { out.push(Op::Prep(k, n)); out.push(Op::Write(h, 1)); out.push(Op::Commit(h)); h += 1; } x => out.push(x) } }
        for _ in 0..1 + rng.below(3) { out.push(Op::Get(*rng.pick(&present))); }
        out.push(Op::Reopen);
        if rng.chance(1, 2) { out.push(Op::Get(*rng.pick(&present))); }
        out.push(Op::Ins(NKEYS - 1, cap - 1));
        if rng.chance(1, 2) { out.push(Op::Reopen); }
        return (cap, out);
    }
    if rng.chance(1, 12) { ops.push(Op::Slow); }
    let mut handles = 0u64;
    for _ in 0..n {
        let k = rng.below(NKEYS); let sz = *rng.pick(&sizes);
        let h = if handles > 0 && rng.chance(5, 6) { rng.below(handles) } else { rng.below(handles + 1) };
        ops.push(match rng.below(20) {
            0..=4 => Op::Ins(k, sz),
            5..=7 => { handles += 1; Op::Prep(k, sz) }
            8..=9 => Op::Write(h, *rng.pick(&[0, 1, 2, cap / 2, cap])),
            10..=12 => Op::Commit(h),
            13 => Op::Drop(h),
            14..=16 => Op::Get(k),
            17 => Op::Rm(k),
            18 => if rng.chance(1, 2) { Op::Xdel(k) } else { Op::Xadd(k, sz.min(cap)) },
            _ => Op::Reopen,
        });
    }
    (cap, ops)
}

fn shrink(cap: u64, ops: Vec<Op>, kind: &str) -> Vec<Op> {
    let mut cur = ops;
    loop {
        let mut progressed = false;
        let mut i = 0;
        while i < cur.len() {
            let mut cand = cur.clone(); cand.remove(i);
            let o = run_case(cap, &cand);
            if o.fails.first().map(|f| f.kind.as_str()) == Some(kind) { cur = cand; progressed = true; } else { i += 1; }
        }
        if !progressed { return cur; }
    }
}

fn main() {
    quiet_panics();
    let a: Vec<String> = std::env::args().collect();
    match a.get(1).map(|s| s.as_str()) {
        Some("gen") => {
            let n: u64 = a[2].parse().unwrap();
            let mut rng = Rng::from_env();
            let mut trace = std::io::BufWriter::new(std::fs::File::create(&a[3]).unwrap());
            let (mut steps, mut evictions, mut panics) = (0u64, 0u64, 0u64);
            let mut results: BTreeMap<String, u64> = BTreeMap::new(); let mut ophist: BTreeMap<String, u64> = BTreeMap::new();
            let mut distinct = std::collections::BTreeSet::new(); let mut nontrivial = 0u64;
            let mut fails: Vec<String> = vec![]; let mut samples: Vec<String> = vec![];
            // corpus first: op files under corpus dir given by VERIF_CORPUS
            let mut cases: Vec<(u64, Vec<Op>)> = vec![];
            if let Ok(dir) = std::env::var("VERIF_CORPUS") { if let Ok(rd) = std::fs::read_dir(&dir) { let mut ps: Vec<_> = rd.filter_map(|e| e.ok()).map(|e| e.path()).collect(); ps.sort();
                for p in ps { if let Some(c) = read_ops(&p) { cases.push(c); } } } }
            let ncorpus = cases.len();
            for _ in 0..n { cases.push(gen_case(&mut rng)); }
            for (ci, (cap, ops)) in cases.iter().enumerate() {
                let o = run_case(*cap, ops);
                for l in &o.lines { writeln!(trace, "{}", l).unwrap(); }
                steps += o.lines.len() as u64 - 1; evictions += o.evictions; panics += o.panics;
                for (k, v) in &o.results { *results.entry(k.clone()).or_insert(0) += v; }
                for op in ops { *ophist.entry(op_str(op).split(' ').next().unwrap().to_string()).or_insert(0) += 1; }
                let sig = o.lines.join(";");
                if distinct.insert(sig) && (o.evictions > 0 || o.panics > 0 || o.results.get("tooLarge").is_some()) { nontrivial += 1; }
                if samples.len() < 3 && o.evictions > 0 { samples.push(o.lines.join(" ; ")); }
                if let Some(f) = o.fails.first() {
                    let small = shrink(*cap, ops.clone(), &f.kind);
                    let so = run_case(*cap, &small);
                    let f2 = so.fails.first().cloned().unwrap_or(f.clone());
                    fails.push(format!("{{\"kind\":\"{}\",\"detail\":\"{}\",\"case\":{},\"corpus\":{},\"cap\":{},\"ops\":[{}]}}", f2.kind, f2.detail.replace('"', "'"), ci, ci < ncorpus,
                        cap, small.iter().map(|o| format!("\"{}\"", op_str(o))).collect::<Vec<_>>().join(",")));
                }
            }
            let hist = |m: &BTreeMap<String, u64>| m.iter().map(|(k, v)| format!("\"{}\":{}", k, v)).collect::<Vec<_>>().join(",");
            let summary = format!("{{\"cases\":{},\"corpus_cases\":{},\"steps\":{},\"evictions\":{},\"panics\":{},\"distinct_nontrivial\":{},\"op_histogram\":{{{}}},\"result_histogram\":{{{}}},\"monitor_failures\":[{}],\"samples\":[{}]}}",
                cases.len(), ncorpus, steps, evictions, panics, nontrivial, hist(&ophist), hist(&results), fails.join(","), samples.iter().map(|s| format!("\"{}\"", s)).collect::<Vec<_>>().join(","));
            std::fs::write(&a[4], summary).unwrap();
        }
        Some("replay") => {
            let (cap, ops) = read_ops(Path::new(&a[2])).expect("ops file: first line `new <cap>`, then one op per line");
            let o = run_case(cap, &ops);
            for l in &o.lines { println!("{}", l); }
            for f in &o.fails { println!("MONITOR-FAIL {} {}", f.kind, f.detail); }
            std::process::exit(if o.fails.is_empty() { 0 } else { 1 });
        }
        _ => { eprintln!("usage: h_lru gen <n> <trace> <summary> | replay <ops>"); std::process::exit(2); }
    }
}

fn read_ops(p: &Path) -> Option<(u64, Vec<Op>)> {
    let s = std::fs::read_to_string(p).ok()?;
    let mut it = s.lines().filter(|l| !l.trim().is_empty() && !l.starts_with('#'));
    let first = it.next()?; let cap: u64 = first.strip_prefix("new ")?.trim().parse().ok()?;
    let ops: Vec<Op> = it.filter_map(|l| parse_op(l.split("->").next().unwrap())).collect();
    Some((cap, ops))
}
