//! C19 (and the build-server half of C13): crafted jobs sent with the REAL `dist::http::Client` to a real
//! `sccache-dist scheduler` + `sccache-dist server` (OverlayBuilder; only bubblewrap is replaced, see tools/fake_bwrap.c).
//! The client chooses everything an authenticated client can choose: the toolchain archive (contents, symlinks in it),
//! the job's cwd, the output paths, the members of the inputs archive (raw names, symlinks, hard links) and the command.
//! usage: h_distjob <spec.json>   — prints one JSON line per job: result, exit status, stdout, returned outputs
//! spec: {"scheduler": url, "token": t, "cache_dir": d, "jobtool": path-of-static-tool,
//!        "jobs": [{"toolchain": {"marker": text, "links": [[name, target]...]}, "cwd": s, "outputs": [s...], "args": [s...],
//!                  "inputs": [{"kind": "file"|"symlink"|"hardlink"|"dir", "name": s, "data": s, "target": s}...]}...]}
use sccache::dist::http::Client;
use sccache::dist::pkg::{InputsPackager, ToolchainPackager};
use sccache::dist::{AllocJobResult, Client as _, CompileCommand, PathTransformer, RunJobResult, SubmitToolchainResult};
use std::io::{Read, Write};
use verif_harness::*;

fn raw_header(name: &[u8], kind: tar::EntryType, size: u64, link: Option<&[u8]>) -> tar::Header {
    let mut h = tar::Header::new_gnu();
    {
        let old = h.as_old_mut();
        let n = name.len().min(99); old.name[..n].copy_from_slice(&name[..n]);          // raw bytes: no validation of `..`, leading `/`, …
        if let Some(l) = link { let n = l.len().min(99); old.linkname[..n].copy_from_slice(&l[..n]); }
    }
    h.set_entry_type(kind); h.set_size(size); h.set_mode(if kind == tar::EntryType::Directory { 0o755 } else { 0o644 }); h.set_mtime(1_600_000_000); h.set_uid(0); h.set_gid(0);
    h.set_cksum(); h
}

struct Tc { tool: Vec<u8>, marker: String, links: Vec<(String, String)> }
impl ToolchainPackager for Tc {
    fn write_pkg(self: Box<Self>, f: fs_err::File) -> sccache::errors::Result<()> {
        let gz = flate2::write::GzEncoder::new(f, flate2::Compression::fast());
        let mut b = tar::Builder::new(gz);
        b.append(&raw_header(b"bin/", tar::EntryType::Directory, 0, None), &[][..])?;
        let mut h = raw_header(b"bin/jobtool", tar::EntryType::Regular, self.tool.len() as u64, None); h.set_mode(0o755); h.set_cksum();
        b.append(&h, &self.tool[..])?;
        b.append(&raw_header(b"bin/marker", tar::EntryType::Regular, self.marker.len() as u64, None), self.marker.as_bytes())?;
        for (name, target) in &self.links { b.append(&raw_header(name.as_bytes(), tar::EntryType::Symlink, 0, Some(target.as_bytes())), &[][..])?; }
        b.into_inner()?.finish()?;
        Ok(())
    }
}

struct Inputs { members: Vec<(String, Vec<u8>, Vec<u8>, Vec<u8>)> }     // kind, name, data, target
impl InputsPackager for Inputs {
    fn write_inputs(self: Box<Self>, wtr: &mut dyn Write) -> sccache::errors::Result<PathTransformer> {
        let mut b = tar::Builder::new(wtr);
        for (kind, name, data, target) in &self.members {
            match kind.as_str() {
                "file" => b.append(&raw_header(name, tar::EntryType::Regular, data.len() as u64, None), &data[..])?,
                "symlink" => b.append(&raw_header(name, tar::EntryType::Symlink, 0, Some(target)), &[][..])?,
                "hardlink" => b.append(&raw_header(name, tar::EntryType::Link, 0, Some(target)), &[][..])?,
                _ => b.append(&raw_header(name, tar::EntryType::Directory, 0, None), &[][..])?,
            }
        }
        b.finish()?;
        Ok(PathTransformer::new())
    }
}

fn s(v: &serde_json::Value, k: &str) -> String { v.get(k).and_then(|x| x.as_str()).unwrap_or("").to_string() }
fn sl(v: &serde_json::Value, k: &str) -> Vec<String> { v.get(k).and_then(|x| x.as_array()).map(|a| a.iter().map(|x| x.as_str().unwrap_or("").to_string()).collect()).unwrap_or_default() }

fn main() {
    let a: Vec<String> = std::env::args().collect();
    let spec: serde_json::Value = serde_json::from_str(&std::fs::read_to_string(&a[1]).unwrap()).unwrap();
    let rt = tokio::runtime::Builder::new_multi_thread().worker_threads(2).enable_all().build().unwrap();
    let tool = std::fs::read(s(&spec, "jobtool")).unwrap();
    let client = match Client::new(rt.handle(), s(&spec, "scheduler").parse().unwrap(), std::path::Path::new(&s(&spec, "cache_dir")), 1 << 30, &[], s(&spec, "token"), false) {
        Ok(c) => c, Err(e) => { println!("{{\"result\":{}}}", jstr(&format!("client_error: {:#}", e))); return; } };
    for (ji, job) in spec["jobs"].as_array().unwrap().iter().enumerate() {
        let tcv = &job["toolchain"];
        let links: Vec<(String, String)> = tcv.get("links").and_then(|x| x.as_array()).map(|a| a.iter().map(|p| (p[0].as_str().unwrap().to_string(), p[1].as_str().unwrap().to_string())).collect()).unwrap_or_default();
        let weak = format!("{}|{:?}", s(tcv, "marker"), links);
        let res: Result<String, String> = rt.block_on(async {
            if let Some(id) = job.get("toolchain_id").and_then(|x| x.as_str()) {
                // a crafted toolchain identifier: alloc_job carries it to the scheduler and the build server as it is; the real client would refuse
                // to upload an archive it does not have, so submit_toolchain is sent raw (the server refuses the upload but the job becomes ready)
                let tc = sccache::dist::Toolchain { archive_id: id.to_string() };
                let alloc = client.do_alloc_job(tc.clone()).await.map_err(|e| format!("alloc: {:#}", e))?;
                let job_alloc = match alloc { AllocJobResult::Success { job_alloc, .. } => job_alloc, AllocJobResult::Fail { msg } => return Ok(format!("\"result\":\"alloc_fail\",\"detail\":{}", jstr(&msg))) };
                let raw = reqwest::Client::builder().danger_accept_invalid_certs(true).build().map_err(|e| format!("raw client: {}", e))?;
                let url = sccache::dist::http::urls::server_submit_toolchain(job_alloc.server_id, job_alloc.job_id);
                let sub = match raw.post(url).bearer_auth(job_alloc.auth.clone()).body(b"this is not a toolchain".to_vec()).send().await { Ok(r) => format!("HTTP {}", r.status()), Err(e) => format!("{}", e) };
                let cmd = CompileCommand { executable: "/bin/jobtool".into(), arguments: sl(job, "args"), env_vars: vec![], cwd: s(job, "cwd") };
                let r = client.do_run_job(job_alloc, cmd, sl(job, "outputs"), Box::new(Inputs { members: vec![] })).await;
                return Ok(match r {
                    Ok((RunJobResult::Complete(_), _)) => format!("\"result\":\"complete\",\"detail\":{}", jstr(&format!("crafted id; submit_toolchain: {}", sub))),
                    Ok((RunJobResult::JobNotFound, _)) => format!("\"result\":\"job_not_found\",\"detail\":{}", jstr(&sub)),
                    Err(e) => format!("\"result\":\"error\",\"detail\":{}", jstr(&format!("submit_toolchain: {}; run_job: {:#}", sub, e))),
                });
            }
            let (tc, _) = client.put_toolchain(std::path::PathBuf::from("/bin/jobtool"), weak, Box::new(Tc { tool: tool.clone(), marker: s(tcv, "marker"), links })).await.map_err(|e| format!("put_toolchain: {:#}", e))?;
            let alloc = client.do_alloc_job(tc.clone()).await.map_err(|e| format!("alloc: {:#}", e))?;
            let (job_alloc, need) = match alloc { AllocJobResult::Success { job_alloc, need_toolchain } => (job_alloc, need_toolchain), AllocJobResult::Fail { msg } => return Ok(format!("\"result\":\"alloc_fail\",\"detail\":{}", jstr(&msg))) };
            if need {
                match client.do_submit_toolchain(job_alloc.clone(), tc.clone()).await.map_err(|e| format!("submit_toolchain: {:#}", e))? {
                    SubmitToolchainResult::Success => {}
                    SubmitToolchainResult::JobNotFound => return Ok("\"result\":\"submit_job_not_found\"".into()),
                    SubmitToolchainResult::CannotCache => return Ok("\"result\":\"submit_cannot_cache\"".into()),
                }
            }
            let members = job.get("inputs").and_then(|x| x.as_array()).map(|a| a.iter().map(|m| (s(m, "kind"), s(m, "name").into_bytes(), s(m, "data").into_bytes(), s(m, "target").into_bytes())).collect()).unwrap_or_default();
            let cmd = CompileCommand { executable: "/bin/jobtool".into(), arguments: sl(job, "args"), env_vars: vec![], cwd: s(job, "cwd") };
            let (r, _) = client.do_run_job(job_alloc, cmd, sl(job, "outputs"), Box::new(Inputs { members })).await.map_err(|e| format!("run_job: {:#}", e))?;
            match r {
                RunJobResult::JobNotFound => Ok("\"result\":\"job_not_found\"".into()),
                RunJobResult::Complete(c) => {
                    let outs: Vec<String> = c.outputs.into_iter().map(|(n, d)| { let mut v = vec![]; let _ = d.into_reader().read_to_end(&mut v); format!("{}:{}", jstr(&n), jstr(&String::from_utf8_lossy(&v[..v.len().min(400)]))) }).collect();
                    let o: std::process::Output = c.output.into();
                    Ok(format!("\"result\":\"complete\",\"status\":{},\"stdout\":{},\"stderr\":{},\"outputs\":{{{}}}", o.status.code().unwrap_or(-1), jstr(&String::from_utf8_lossy(&o.stdout)), jstr(&String::from_utf8_lossy(&o.stderr[..o.stderr.len().min(300)])), outs.join(",")))
                }
            }
        });
        match res { Ok(body) => println!("{{\"job\":{},{}}}", ji, body), Err(e) => println!("{{\"job\":{},\"result\":\"error\",\"detail\":{}}}", ji, jstr(&e)) }
    }
}
