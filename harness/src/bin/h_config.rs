//! C15 / C04 / C07 configuration tie: the real `sccache::config::Config::load` (environment + `[cache.disk]` of the
//! file named by SCCACHE_CONF) and the real `parse_size`, vs `modeld config` (`ConfigM.load`, `ConfigM.parseSize`).
//! Lines:
//!   sz\t<hex value>\t<none|panic|N>
//!   ld\t<dir>\t<size>\t<direct>\t<rw>\t<file>\t<result>
//!      env fields: hex of the value or `-` (unset; a non-unicode value of a variable read with env::var is passed as `-`)
//!      file: `-` (no file) or `dir=<hex|->;size=<N|->;pp=<-|six of 0/1/->;rw=<RO|RW|->`
//!      result: `error` | `panic` | `ok dir=<hex|D> size=<N> pp=<six 0/1> rw=<RO|RW>`
//! Monitor (the statement, on the implementation): a cache configured read-only is loaded read-only.
//! usage: h_config gen <n> <trace_out> <summary_out> | h_config replay <file with ld lines>
use sccache::config::{parse_size, CacheModeConfig, Config};
use std::ffi::OsString;
use std::io::Write;
use std::os::unix::ffi::{OsStrExt, OsStringExt};
use verif_harness::*;

const VARS: [&str; 4] = ["SCCACHE_DIR", "SCCACHE_CACHE_SIZE", "SCCACHE_DIRECT", "SCCACHE_LOCAL_RW_MODE"];

#[derive(Clone, Debug, Default)]
struct FileDisk { dir: Option<String>, size: Option<u64>, pp: Option<[Option<bool>; 6]>, rw: Option<bool /* read-only */> }

fn toml_of(f: &FileDisk) -> String {
    let mut s = String::from("[cache.disk]\n");
    if let Some(d) = &f.dir { s += &format!("dir = \"{}\"\n", d); }
    if let Some(n) = f.size { s += &format!("size = {}\n", n); }
    if let Some(r) = f.rw { s += &format!("rw_mode = \"{}\"\n", if r { "READ_ONLY" } else { "READ_WRITE" }); }
    if let Some(p) = &f.pp {
        s += "[cache.disk.preprocessor_cache_mode]\n";
        let names = ["use_preprocessor_cache_mode", "file_stat_matches", "use_ctime_for_stat", "ignore_time_macros", "skip_system_headers", "hash_working_directory"];
        for i in 0..6 { if let Some(b) = p[i] { s += &format!("{} = {}\n", names[i], b); } }
    }
    s
}

fn file_field(f: &Option<FileDisk>) -> String {
    match f {
        None => "-".into(),
        Some(f) => format!("dir={};size={};pp={};rw={}",
            f.dir.as_ref().map(|d| hex(d.as_bytes())).unwrap_or("-".into()),
            f.size.map(|n| n.to_string()).unwrap_or("-".into()),
            f.pp.as_ref().map(|p| p.iter().map(|b| match b { Some(true) => '1', Some(false) => '0', None => '-' }).collect::<String>()).unwrap_or("-".into()),
            match f.rw { Some(true) => "RO", Some(false) => "RW", None => "-" }),
    }
}

fn parse_file_field(s: &str) -> Option<FileDisk> {
    if s == "-" { return None; }
    let mut f = FileDisk::default();
    for kv in s.split(';') {
        let (k, v) = kv.split_once('=').unwrap();
        match k {
            "dir" => if v != "-" { f.dir = Some(String::from_utf8(unhex(v)).unwrap()) },
            "size" => if v != "-" { f.size = Some(v.parse().unwrap()) },
            "pp" => if v != "-" { let mut p = [None; 6]; for (i, c) in v.chars().enumerate() { p[i] = match c { '1' => Some(true), '0' => Some(false), _ => None }; } f.pp = Some(p); },
            "rw" => f.rw = match v { "RO" => Some(true), "RW" => Some(false), _ => None },
            _ => panic!("bad file field"),
        }
    }
    Some(f)
}

/// run the real loader; returns the result field
fn load(env: &[Option<Vec<u8>>; 4], file: &Option<FileDisk>, dir: &std::path::Path) -> String {
    for (i, v) in VARS.iter().enumerate() {
        match &env[i] { Some(b) => std::env::set_var(v, OsString::from_vec(b.clone())), None => std::env::remove_var(v) }
    }
    let conf = dir.join("config");
    match file { Some(f) => std::fs::write(&conf, toml_of(f)).unwrap(), None => { let _ = std::fs::remove_file(&conf); } }
    std::env::set_var("SCCACHE_CONF", &conf);
    let r = std::panic::catch_unwind(Config::load);
    match r {
        Err(_) => "panic".into(),
        Ok(Err(_)) => "error".into(),
        Ok(Ok(c)) => {
            let d = &c.fallback_cache;
            if c.cache.is_some() { return "remote".into(); }
            let p = &d.preprocessor_cache_mode;
            let bits: String = [p.use_preprocessor_cache_mode, p.file_stat_matches, p.use_ctime_for_stat, p.ignore_time_macros, p.skip_system_headers, p.hash_working_directory]
                .iter().map(|b| if *b { '1' } else { '0' }).collect();
            let dirs = if d.dir == sccache::config::default_disk_cache_dir() { "D".to_string() } else { hex_e(d.dir.as_os_str().as_bytes()) };
            format!("ok dir={} size={} pp={} rw={}", dirs, d.size, bits, if d.rw_mode == CacheModeConfig::ReadOnly { "RO" } else { "RW" })
        }
    }
}

fn envf(v: &Option<Vec<u8>>, unicode_only: bool) -> String {
    match v { None => "-".into(), Some(b) => if unicode_only && std::str::from_utf8(b).is_err() { "-".into() } else { hex_e(b) } }
}

/// the statement on the implementation: what the user configured as read-only must be loaded read-only
fn monitor(env: &[Option<Vec<u8>>; 4], file: &Option<FileDisk>, res: &str, line: &str, fails: &mut Vec<String>) {
    if !res.starts_with("ok") { return; }
    let env_rw = env[3].as_ref().and_then(|b| std::str::from_utf8(b).ok());
    let configured_ro = match env_rw {
        Some("READ_ONLY") => Some("environment"),
        Some("READ_WRITE") => None,
        _ => if file.as_ref().and_then(|f| f.rw) == Some(true) { Some("file") } else { None },
    };
    if let Some(src) = configured_ro {
        if !res.ends_with("rw=RO") {
            let others: Vec<&str> = (0..3).filter(|i| env[*i].is_some()).map(|i| VARS[i]).collect();
            fails.push(fail_json("configured_read_only_not_effective", &format!("rw_mode = READ_ONLY from the {} is loaded as READ_WRITE; other disk variables set: {:?}", src, others), &[line.to_string()], ""));
        }
    }
}

fn gen_size(rng: &mut Rng) -> Vec<u8> {
    let mut s: Vec<u8> = vec![];
    match rng.below(10) {
        0 => {}
        1 => s.push(b'+'),
        2 => s.push(b'-'),
        3 => s.push(b' '),
        _ => {}
    }
    let nd = match rng.below(8) { 0 => 0, 1 => 20, 2 => 19, 3 => 21, _ => 1 + rng.below(8) };
    for i in 0..nd { s.push(b'0' + if nd >= 19 && i == 0 { 1 + rng.below(2) as u8 } else { rng.below(10) as u8 }); }
    if nd == 20 && rng.chance(1, 2) { s = b"18446744073709551615".to_vec(); if rng.chance(1, 2) { *s.last_mut().unwrap() = b'6'; } }
    match rng.below(12) { 0 => s.push(b'K'), 1 => s.push(b'M'), 2 => s.push(b'G'), 3 => s.push(b'T'), 4 => s.push(b'k'), 5 => s.extend_from_slice("K".as_bytes()) /* Kelvin sign */,
        6 => s.extend_from_slice(b"KB"), 7 => s.push(b' '), _ => {} }
    s
}

fn gen_case(rng: &mut Rng) -> ([Option<Vec<u8>>; 4], Option<FileDisk>) {
    let dir = if rng.chance(1, 2) { None } else { Some(match rng.below(5) { 0 => b"/c/\xff\xfe".to_vec(), 1 => b"rel dir".to_vec(), 2 => "/tmp/é".as_bytes().to_vec(), 3 => b"".to_vec(), _ => format!("/tmp/vc{}", rng.below(100)).into_bytes() }) };
    let size = if rng.chance(1, 2) { None } else if rng.chance(1, 12) { Some(b"12\xff".to_vec()) } else { Some(gen_size(rng)) };
    let direct = if rng.chance(1, 2) { None } else { Some(rng.pick(&["true", "TRUE", "True", "on", "ON", "1", "false", "False", "off", "OFF", "0", "", "yes", "no", "2", "tru", " true", "o\u{212a}", "\u{130}", "tRuE", "oFf"]).as_bytes().to_vec()) };
    let direct = if rng.chance(1, 40) { Some(b"on\xff".to_vec()) } else { direct };
    let rw = if rng.chance(1, 2) { None } else { Some(rng.pick(&["READ_ONLY", "READ_WRITE", "READ_ONLY", "read_only", "Read_Only", "READONLY", "", "READ_ONLY ", "RO", "READ_WRITE\n"]).as_bytes().to_vec()) };
    let rw = if rng.chance(1, 40) { Some(b"READ_ONLY\xff".to_vec()) } else { rw };
    let file = if rng.chance(2, 5) { None } else {
        let mut f = FileDisk::default();
        if rng.chance(1, 2) { f.dir = Some(format!("/tmp/fc{}", rng.below(100))); }
        if rng.chance(1, 2) { f.size = Some(match rng.below(4) { 0 => 0, 1 => 1 << 40, 2 => i64::MAX as u64, _ => rng.below(1 << 34) }); }
        if rng.chance(1, 2) { f.rw = Some(rng.chance(2, 3)); }
        if rng.chance(1, 2) { let mut p = [None; 6]; for i in 0..6 { if rng.chance(1, 2) { p[i] = Some(rng.chance(1, 2)); } } f.pp = Some(p); }
        Some(f)
    };
    ([dir, size, direct, rw], file)
}

fn main() {
    quiet_panics();
    let a: Vec<String> = std::env::args().collect();
    for v in ["SCCACHE_BUCKET", "SCCACHE_REDIS", "SCCACHE_REDIS_ENDPOINT", "SCCACHE_REDIS_CLUSTER_ENDPOINTS", "SCCACHE_MEMCACHED", "SCCACHE_MEMCACHED_ENDPOINT", "SCCACHE_GCS_BUCKET", "SCCACHE_GHA_ENABLED",
              "ACTIONS_CACHE_URL", "ACTIONS_RESULTS_URL", "SCCACHE_AZURE_CONNECTION_STRING", "SCCACHE_WEBDAV_ENDPOINT", "SCCACHE_OSS_BUCKET", "SCCACHE_GHA_CACHE_URL", "SCCACHE_GHA_RUNTIME_TOKEN", "ACTIONS_RUNTIME_TOKEN"] { std::env::remove_var(v); }
    let tmp = tempfile::tempdir().unwrap();
    match a.get(1).map(|s| s.as_str()) {
        Some("gen") => {
            let n: u64 = a[2].parse().unwrap(); let mut rng = Rng::from_env();
            let mut tr = std::io::BufWriter::new(std::fs::File::create(&a[3]).unwrap());
            let mut fails = vec![]; let mut samples = vec![]; let mut hist = std::collections::BTreeMap::<String, u64>::new();
            let mut distinct = std::collections::BTreeSet::new(); let mut nontrivial = 0u64;
            // parse_size on its own
            for i in 0..n {
                let s = if i < 8 { [&b"10K"[..], b"1M", b"2G", b"3T", b"0", b"", b"K", b"18014398509481984K"][i as usize].to_vec() } else { gen_size(&mut rng) };
                let r = match std::str::from_utf8(&s) { Err(_) => continue, Ok(t) => { let t = t.to_string(); std::panic::catch_unwind(move || parse_size(&t)) } };
                let rs = match r { Err(_) => "panic".to_string(), Ok(None) => "none".into(), Ok(Some(v)) => v.to_string() };
                *hist.entry(format!("parse_size:{}", if rs == "panic" || rs == "none" { rs.as_str() } else { "some" })).or_insert(0) += 1;
                writeln!(tr, "sz\t{}\t{}", hex_e(&s), rs).unwrap();
            }
            for _ in 0..n {
                let (env, file) = gen_case(&mut rng);
                let res = load(&env, &file, tmp.path());
                let line = format!("ld\t{}\t{}\t{}\t{}\t{}\t{}", envf(&env[0], false), envf(&env[1], true), envf(&env[2], true), envf(&env[3], true), file_field(&file), res);
                writeln!(tr, "{}", line).unwrap();
                *hist.entry(format!("load:{}", res.split(' ').next().unwrap())).or_insert(0) += 1;
                let envset = env.iter().filter(|v| v.is_some()).count();
                *hist.entry(format!("env_vars_set:{}", envset)).or_insert(0) += 1;
                *hist.entry(format!("file:{}", if file.is_some() { "present" } else { "absent" })).or_insert(0) += 1;
                if distinct.insert(line.clone()) && file.is_some() && envset > 0 && res.starts_with("ok") { nontrivial += 1; }
                if samples.len() < 3 && file.is_some() && envset > 1 { samples.push(line.replace('\t', " ")); }
                monitor(&env, &file, &res, &line, &mut fails);
            }
            std::fs::write(&a[4], format!("{{\"cases\":{},\"distinct_nontrivial\":{},\"histogram\":{{{}}},\"monitor_failures\":[{}],\"samples\":[{}]}}",
                2 * n, nontrivial, hist.iter().map(|(k, v)| format!("{}:{}", jstr(k), v)).collect::<Vec<_>>().join(","),
                fails.join(","), samples.iter().map(|s| jstr(s)).collect::<Vec<_>>().join(","))).unwrap();
        }
        Some("replay") => {
            let s = std::fs::read_to_string(&a[2]).unwrap(); let mut bad = 0;
            for l in s.lines().filter(|l| l.starts_with("ld\t")) {
                let f: Vec<&str> = l.split('\t').collect();
                let g = |x: &str| if x == "-" { None } else if x == "e" { Some(vec![]) } else { Some(unhex(x)) };
                let env = [g(f[1]), g(f[2]), g(f[3]), g(f[4])]; let file = parse_file_field(f[5]);
                let res = load(&env, &file, tmp.path());
                let mut fails = vec![]; monitor(&env, &file, &res, l, &mut fails);
                println!("{} => {}{}", l.replace('\t', " "), res, if fails.is_empty() { "" } else { "   PROPERTY VIOLATED: configured read-only, loaded read-write" });
                if !fails.is_empty() { bad += 1; }
            }
            std::process::exit(if bad > 0 { 1 } else { 0 });
        }
        _ => { eprintln!("usage: h_config gen <n> <trace> <summary> | replay <file>"); std::process::exit(2); }
    }
}
