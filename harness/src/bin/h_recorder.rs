//! C04, second tier: the include recorder of preprocessor-cache mode (`process_preprocessed_file`, reached through
//! hook H2) on generated line-marker texts over a real directory tree, against `modeld recorder`.
//! Monitor (statement level, independent of the model): if direct mode stays enabled, every file named by a well-formed
//! line marker — resolved the way the preprocessor resolved it, i.e. physically — is among the recorded files, unless it
//! is the input, a `<pseudo>` file, a directory, or a system header while system headers are skipped.
//!
//! usage: h_recorder <n> <work_dir> <trace_out> <summary_out>
use sccache::config::PreprocessorCacheModeConfig;
use std::ffi::OsStr;
use std::io::Write;
use std::os::unix::ffi::OsStrExt;
use std::path::{Component, Path, PathBuf};
use std::time::{Duration, SystemTime};
use verif_harness::*;

fn render(p: &Path) -> Vec<u8> {
    let mut out = vec![];
    for c in p.components() {
        match c { Component::RootDir | Component::Prefix(_) => {}, Component::Normal(x) => { out.push(b'/'); out.extend_from_slice(x.as_bytes()); }
                  Component::ParentDir => out.extend_from_slice(b"/.."), Component::CurDir => out.extend_from_slice(b"/.") }
    }
    if out.is_empty() { out.push(b'/'); }
    out
}

fn set_mtime(p: &Path, t: SystemTime) {
    let f = std::fs::OpenOptions::new().write(true).open(p).unwrap(); f.set_modified(t).unwrap();
}

struct Line { bytes: Vec<u8>, marker: Option<(Vec<u8>, bool)> } // marker: (raw path, system flag) for a well-formed `# N "path" flags` line

fn main() {
    let a: Vec<String> = std::env::args().collect();
    let n: u64 = a[1].parse().unwrap();
    quiet_panics();
    let mut rng = Rng::from_env();
    let work = PathBuf::from(&a[2]); std::fs::create_dir_all(&work).unwrap();
    let tmp = tempfile::tempdir_in(&work).unwrap();
    let root = tmp.path().canonicalize().unwrap();
    let cwd = root.join("p/src");
    let now = SystemTime::now(); let old = now - Duration::from_secs(86400 * 30); let future = now + Duration::from_secs(86400 * 2);
    let toc = now + Duration::from_secs(3600);       // "start of compilation": after every ctime in the tree, before `future`
    let files: [(&str, &[u8], bool); 14] = [
        ("p/src/main.c", b"int main;\n", false), ("p/src/a.h", b"#define A 1\n", false), ("p/src/b 3.h", b"#define B3 1\n", false),
        ("p/src/time.h", b"const char *t = __TIME__;\n", false), ("p/src/date.h", b"const char *d = __DATE__;\n", false), ("p/src/new.h", b"#define NEW 1\n", true),
        ("p/src/sub/c.h", b"#define C 1\n", false), ("p/src/sub/deep/d.h", b"#define D 1\n", false), ("p/src/v3/e.h", b"#define E 1\n", false),
        ("p/src/inc/f.h", b"#define F 99\n", false), ("p/inc/f.h", b"#define F 1\n", false), ("p/inc/g.h", b"#define G 1\n", false), ("p/other/h.h", b"#define H 1\n", false),
        ("far/h3.h", b"#define H3 1\n", false)];
    for (rel, body, newer) in files.iter() {
        let p = root.join(rel); std::fs::create_dir_all(p.parent().unwrap()).unwrap(); std::fs::write(&p, body).unwrap();
        set_mtime(&p, if *newer { future } else { old });
    }
    std::fs::write(cwd.join("h3.h"), b"#define H3 99\n").unwrap(); set_mtime(&cwd.join("h3.h"), old);
    std::fs::create_dir_all(cwd.join("adir")).unwrap(); std::fs::create_dir_all(root.join("far/deep")).unwrap();
    let fifo = std::ffi::CString::new(cwd.join("pipe").as_os_str().as_bytes()).unwrap();
    unsafe { libc::mkfifo(fifo.as_ptr(), 0o644); }
    // ---- the world as the model sees it (no directory symlinks in it): every ancestor of the root, every entry below it
    let mut world: Vec<String> = vec![];
    let mut anc = root.clone(); loop { world.push(format!("{}:d", hex(&render(&anc)))); if !anc.pop() { break; } }
    fn walk(d: &Path, world: &mut Vec<String>, toc: SystemTime) {
        for e in std::fs::read_dir(d).unwrap() {
            let e = e.unwrap(); let p = e.path(); let m = std::fs::metadata(&p).unwrap();
            if m.is_dir() { world.push(format!("{}:d", hex(&render(&p)))); walk(&p, world, toc); }
            else if m.is_file() {
                let body = std::fs::read(&p).unwrap();
                // too new = modified *or changed* (ctime) at or after the start of the compilation
                let ctime = std::time::UNIX_EPOCH + Duration::new(std::os::unix::fs::MetadataExt::ctime(&m) as u64, std::os::unix::fs::MetadataExt::ctime_nsec(&m) as u32);
                let too_new = m.modified().unwrap() >= toc || ctime >= toc;
                world.push(format!("{}:f{}0{}", hex(&render(&p)), too_new as u8, body.windows(8).any(|w| w == b"__TIME__") as u8));
            } else { world.push(format!("{}:o", hex(&render(&p)))); }
        }
    }
    let mut world_past = world.clone();
    walk(&root, &mut world, toc);
    let world_s = world.join(";");
    // a second clock: the compilation started a day ago — every file of the tree has been *changed* (ctime) since, although most were last
    // *modified* a month ago (what a header replaced with its old mtime, cp -p / rsync -t, looks like)
    let toc_past = now - Duration::from_secs(86400);
    walk(&root, &mut world_past, toc_past);
    let world_past_s = world_past.join(";");
    // the symlinked directory exists only for the monitor-only cases (it is created after the walk)
    std::os::unix::fs::symlink("../../far/deep", cwd.join("lnk")).unwrap();

    let input = cwd.join("main.c");
    let abs = |rel: &str| -> Vec<u8> { root.join(rel).as_os_str().as_bytes().to_vec() };
    let mut spellings: Vec<Vec<u8>> = ["a.h", "./a.h", ".//a.h", "b 3.h", "sub/c.h", "sub/./c.h", "sub//c.h", "sub/../a.h", "sub/deep/../../a.h", "sub/deep/d.h", "sub/deep/../c.h", "v3/e.h",
        "../inc/f.h", "../inc/g.h", "../src/a.h", "../../p/src/a.h", "../../p/inc/g.h", "inc/f.h", "inc/../../inc/g.h", "../other/h.h", "..", ".", "", "a.h/", "sub/", "adir", "adir/", "pipe", "time.h", "date.h", "new.h",
        "nope.h", "sub/nope/../c.h", "nope/../a.h", "a.h/../a.h", "main.c", "./main.c", "sub/../main.c", "<built-in>", "<command-line>", "<x", "x>", "<>", "<", "<a.h>", "a\u{00e9}.h", "../src/../inc/f.h", "./../inc/g.h", "sub/../../inc/g.h"]
        .iter().map(|s| s.as_bytes().to_vec()).collect();
    for rel in ["p/src/a.h", "p/src/sub/../a.h", "p/src/../inc/f.h", "p/inc/g.h", "p/src/main.c", "p/src", "p/src/nope.h", "p/src/./sub/c.h"] { spellings.push(abs(rel)); }
    { let mut d = b"/".to_vec(); d.extend_from_slice(&abs("p/src/a.h")); spellings.push(d); }
    spellings.push(b"a\xff.h".to_vec());
    let lnk_spellings: Vec<Vec<u8>> = ["lnk/../h3.h", "./lnk/../h3.h"].iter().map(|s| s.as_bytes().to_vec()).collect();
    let flags: [&[u8]; 9] = [b"", b" 1", b" 2", b" 3", b" 1 3", b" 1 3 4", b" 2 3 4", b" 4", b" 13"];
    let nums: [&[u8]; 6] = [b"1", b"3", b"31", b"32", b"120", b"0"];

    let mut tr = std::io::BufWriter::new(std::fs::File::create(&a[3]).unwrap());
    let mut fails: Vec<String> = vec![]; let mut samples: Vec<String> = vec![];
    let mut n_past = 0u64;
    let (mut n_err, mut n_panic, mut n_keep, mut n_disable, mut n_recorded, mut n_markers, mut n_checked, mut n_lnk) = (0u64, 0u64, 0u64, 0u64, 0u64, 0u64, 0u64, 0u64);
    let mut distinct = std::collections::HashSet::new(); let mut failed_paths = std::collections::HashSet::new();
    for case in 0..n {
        let cfg = PreprocessorCacheModeConfig { use_preprocessor_cache_mode: true, file_stat_matches: false, use_ctime_for_stat: rng.chance(1, 2), ignore_time_macros: rng.chance(1, 3), skip_system_headers: rng.chance(1, 2), hash_working_directory: rng.chance(1, 2) };
        let past = rng.chance(1, 5); if past { n_past += 1; }
        let well_formed_only = rng.chance(1, 2);      // half of the texts look like real preprocessor output (monitor applies to all, this raises its yield)
        let with_lnk = case % 16 == 15;               // monitor-only: a path through the symlinked directory
        let nl = 1 + rng.below(7); let mut lines: Vec<Line> = vec![];
        for li in 0..nl {
            let k = if well_formed_only { [0, 0, 0, 6, 12][rng.below(5) as usize] } else { rng.below(14) };
            let sp: Vec<u8> = if with_lnk && li == 0 { rng.pick(&lnk_spellings).clone() } else { rng.pick(&spellings).clone() };
            let mut b: Vec<u8> = vec![]; let mut marker = None;
            match if with_lnk && li == 0 { 0 } else { k } {
                0 | 1 | 2 => { let f = *rng.pick(&flags); b.extend_from_slice(b"# "); b.extend_from_slice(*rng.pick(&nums)); b.extend_from_slice(b" \""); b.extend_from_slice(&sp); b.push(b'"'); b.extend_from_slice(f); b.push(b'\n');
                               if !sp.is_empty() && !sp.contains(&b'"') && !sp.contains(&b'\n') { marker = Some((sp.clone(), f.contains(&b'3'))); } }
                3 => b.extend_from_slice(if rng.chance(1, 2) { b"# 31 \"<command-line>\"\n" } else { b"# 32 \"<command-line>\" 2\n" }),
                4 => { b.extend_from_slice(b"#pragma GCC pch_preprocess \""); b.extend_from_slice(&sp); b.extend_from_slice(b"\"\n"); }
                5 => { b.extend_from_slice(b"#line 5 \""); b.extend_from_slice(&sp); b.extend_from_slice(b"\"\n"); }
                6 => b.extend_from_slice(*rng.pick(&[&b"int x = 3;\n"[..], b"const char *s = \"a.h\";\n", b"#pragma once\n", b"# pragma x\n", b"\n", b"  # 1 \"time.h\"\n", b"x # 1 \"nope.h\"\n"])),
                7 => b.extend_from_slice(*rng.pick(&[&b".incbin \"f\"\n"[..], b"asm(\".incbin \\\"f\\\"\");\n", b".incbin f\n", b".incbinx \"\n", b"  .incbin \"a.h\"\n"])),
                8 => b.extend_from_slice(*rng.pick(&[&b"___________Using distcc-pump from /usr/bin\n"[..], b"__________ten\n", b"x___________not at line start\n", b"___________\n"])),
                9 => b.extend_from_slice(*rng.pick(&[&b"# 5\n"[..], b"# 5 \n", b"# 33\n", b"#\n", b"# x \"a.h\"\n"])),
                10 => b.extend_from_slice(b"# 1 \"\"\n"),
                11 => { b.extend_from_slice(b"# 1 \""); b.extend_from_slice(&sp); b.push(b'\n'); }
                12 => { b.extend_from_slice(b"# 7 \""); b.extend_from_slice(&sp); b.extend_from_slice(b"\" 2\nint y;\n"); if !sp.is_empty() { marker = Some((sp.clone(), false)); } }
                _ => { for _ in 0..rng.below(12) { b.push(*rng.pick(&[b'#', b' ', b'"', b'\n', b'3', b'1', b'a', b'/', b'.', b'_', b'<', b'>'])); } b.push(b'\n'); }
            }
            lines.push(Line { bytes: b, marker });
        }
        let mut text: Vec<u8> = lines.iter().flat_map(|l| l.bytes.clone()).collect();
        if !well_formed_only && rng.chance(1, 4) { text.pop(); }           // unterminated last line
        if !well_formed_only && rng.chance(1, 8) { text.extend_from_slice(*rng.pick(&[&b"___________Using distcc-pump"[..], b"# 1 \"a.h", b"# 1 \"", b"# 12345"])); }
        distinct.insert(text.clone());
        let mut buf = text.clone();
        let res = std::panic::catch_unwind(std::panic::AssertUnwindSafe(|| sccache::verif::verif_process_preprocessed_file(&input, &cwd, &mut buf, cfg, if past { toc_past } else { toc })));
        let (real, keep, recorded): (String, bool, Vec<PathBuf>) = match res {
            Err(_) => { n_panic += 1; ("panic".into(), false, vec![]) }
            Ok(Err(_)) => { n_err += 1; ("err".into(), false, vec![]) }
            Ok(Ok((keep, v))) => {
                let mut r: Vec<Vec<u8>> = v.iter().map(|(p, _)| render(p)).collect(); r.sort();
                if keep { n_keep += 1; } else { n_disable += 1; } n_recorded += v.len() as u64;
                (format!("ok {} {}", keep as u8, r.iter().map(|x| hex(x)).collect::<Vec<_>>().join(",")), keep, v.into_iter().map(|(p, _)| p).collect())
            }
        };
        let line = format!("{}{}\t{}\t{}\t{}\t{}\t{}", cfg.skip_system_headers as u8, cfg.ignore_time_macros as u8, hex(cwd.as_os_str().as_bytes()), hex(input.as_os_str().as_bytes()), hex(&text), if past { &world_past_s } else { &world_s }, real);
        if !with_lnk { writeln!(tr, "{}", line).unwrap(); } else { n_lnk += 1; }
        if samples.len() < 3 { samples.push(format!("{:?} -> {}", String::from_utf8_lossy(&text), if real.len() > 80 { &real[..80] } else { &real })); }
        // ---- monitor: a header that was changed (ctime) after the compilation started may hold other text than the preprocessor saw: recording its
        //      digest next to this result would make later compiles hit wrongly — direct mode must be given up for this request, whatever the stat options say
        if past && keep && !recorded.is_empty() {
            fails.push(fail_json("changed_header_recorded", &format!("every file of the tree was changed after the start of the compilation, yet {} header(s) were recorded with direct mode still on (use_ctime_for_stat={})", recorded.len(), cfg.use_ctime_for_stat), &[format!("text {:?}", String::from_utf8_lossy(&text)), format!("cfg skip_system_headers={} ignore_time_macros={} use_ctime_for_stat={}", cfg.skip_system_headers, cfg.ignore_time_macros, cfg.use_ctime_for_stat), line.clone()], ""));
        }
        // ---- monitor: with direct mode still on, every marker file (resolved physically) is recorded
        if keep {
            let rec_canon: Vec<PathBuf> = recorded.iter().filter_map(|p| p.canonicalize().ok()).collect();
            let input_c = input.canonicalize().unwrap();
            // only markers the scanner can see as such: at a line start, not swallowed by an earlier unterminated quote — true for every line of a well-formed text
            // (a generated line with an unbalanced quote swallows the lines after it: no preprocessor writes such text, and what the markers behind it mean is not defined)
            let balanced = lines.iter().all(|l| l.bytes.iter().filter(|b| **b == b'"').count() % 2 == 0);
            if (well_formed_only || with_lnk) && balanced {
                for l in &lines {
                    if let Some((raw, system)) = &l.marker {
                        n_markers += 1;
                        if raw.len() >= 2 && raw[0] == b'<' && raw[raw.len() - 1] == b'>' { continue; }
                        if *system && cfg.skip_system_headers { continue; }
                        let p = cwd.join(Path::new(OsStr::from_bytes(raw)));
                        let Ok(m) = std::fs::metadata(&p) else { continue };      // the preprocessor cannot have read a file that does not resolve
                        if !m.is_file() { continue; }
                        let c = p.canonicalize().unwrap();
                        if c == input_c { continue; }
                        n_checked += 1;
                        if !rec_canon.contains(&c) && failed_paths.insert(raw.clone()) {     // one report per distinct spelling
                            fails.push(fail_json("recorder_wrong_file", &format!("marker path {:?} resolves to {} but direct mode stayed on without recording it (recorded: {:?})", String::from_utf8_lossy(raw), c.strip_prefix(&root).unwrap().display(), recorded.iter().map(|p| String::from_utf8_lossy(&render(p)[root.as_os_str().len()..]).to_string()).collect::<Vec<_>>()),
                                &[format!("text {:?}", String::from_utf8_lossy(&text)), format!("cfg skip_system_headers={} ignore_time_macros={}", cfg.skip_system_headers, cfg.ignore_time_macros), line.clone()], ""));
                        }
                    }
                }
            }
        }
    }
    std::fs::write(&a[4], format!("{{\"cases\":{},\"distinct_nontrivial\":{},\"to_model\":{},\"monitor_only_symlink_cases\":{},\"err\":{},\"panic\":{},\"kept\":{},\"disabled\":{},\"recorded_files\":{},\"well_formed_markers\":{},\"markers_checked_recorded\":{},\"compilation_clock_in_the_past\":{},\"monitor_failures\":[{}],\"samples\":[{}]}}",
        n, distinct.len(), n - n_lnk, n_lnk, n_err, n_panic, n_keep, n_disable, n_recorded, n_markers, n_checked, n_past, fails.join(","), samples.iter().map(|s| jstr(s)).collect::<Vec<_>>().join(","))).unwrap();
}
