//! C08: cache-entry container.  (1) writer tie, byte-exact: real `CacheWrite` archive vs `modeld entry` on the same
//! members (frames compressed independently with zstd level 3); (2) reader tie: real zip reader vs `modeld entryread`
//! on intact / truncated / byte-substituted archives; (3) monitor on the real `CacheRead`: every faulted archive must
//! fail or yield exactly the original contents — never different contents; intact archives must round-trip bytes,
//! permission bits, stdout and stderr.
//!
//! usage: h_entry gen <n_writer_entries> <n_fault_entries> <writer_req_out> <real_archives_out> <faults_trace_out> <summary_out>
//!        h_entry cmp <real_archives> <model_archives>
//!        h_entry replay <file>        (file: first line archive hex, second line member name hex, third expected content hex)
use sccache::verif::{CacheRead, CacheWrite};
use std::io::{Cursor, Read, Write};
use verif_harness::*;

fn blake3_file(p: &std::path::Path) -> String {
    let mut h = blake3::Hasher::new(); let mut f = std::fs::File::open(p).unwrap(); let mut buf = vec![0u8; 1 << 20];
    loop { let n = f.read(&mut buf).unwrap(); if n == 0 { break; } h.update(&buf[..n]); }
    h.finalize().to_hex().to_string()
}
fn zip_level(bytes: &[u8], name: &str) -> Option<(Option<u32>, Vec<u8>)> {
    let mut z = zip::ZipArchive::new(Cursor::new(bytes.to_vec())).ok()?;
    let mut f = z.by_name(name).ok()?;
    if f.compression() != zip::CompressionMethod::Stored { return None; }
    let mode = f.unix_mode();
    let mut v = Vec::new();
    f.read_to_end(&mut v).ok()?;
    Some((mode, v))
}
fn cache_level(bytes: &[u8], name: &str) -> Option<(Option<u32>, Vec<u8>)> {
    let r = std::panic::catch_unwind(|| {
        let mut r = CacheRead::from(Cursor::new(bytes.to_vec())).ok()?;
        let mut v = Vec::new();
        let mode = r.get_object(name, &mut v).ok()?;
        Some((mode, v))
    });
    match r { Ok(x) => x, Err(_) => Some((None, b"<<panic>>".to_vec())) }
}

/// the hit path of the server: `get_stdout`, `get_stderr`, then `extract_objects` of every output (some optional)
/// into `dir`. None = the restore failed (request treated as a miss); Some = (stdout, stderr, per output: bytes and mode or absent)
#[allow(clippy::type_complexity)]
fn composite(bytes: &[u8], outputs: &[(String, bool)], dir: &std::path::Path, rt: &tokio::runtime::Runtime) -> Option<(Vec<u8>, Vec<u8>, Vec<Option<(Vec<u8>, u32)>>)> {
    use sccache::verif::FileObjectSource;
    use std::os::unix::fs::PermissionsExt;
    let _ = std::fs::remove_dir_all(dir); std::fs::create_dir_all(dir).unwrap();
    let objs: Vec<FileObjectSource> = outputs.iter().enumerate().map(|(i, (k, opt))| FileObjectSource { key: k.clone(), path: dir.join(format!("o{}", i)), optional: *opt }).collect();
    let r = std::panic::catch_unwind(std::panic::AssertUnwindSafe(|| {
        let mut r = CacheRead::from(Cursor::new(bytes.to_vec())).ok()?;
        let (so, se) = verif_harness_streams(&mut r)?;
        rt.block_on(r.extract_objects(objs, rt.handle())).ok()?;
        Some((so, se))
    }));
    let (so, se) = match r { Ok(x) => x?, Err(_) => return Some((b"<<panic>>".to_vec(), vec![], vec![])) };
    let files = (0..outputs.len()).map(|i| { let p = dir.join(format!("o{}", i)); std::fs::read(&p).ok().map(|b| (b, std::fs::metadata(&p).unwrap().permissions().mode() & 0o7777)) }).collect();
    Some((so, se, files))
}
/// `get_stdout` / `get_stderr` (signature-agnostic: Vec<u8> in the pinned code, Result<Vec<u8>> after the repair)
fn verif_harness_streams(r: &mut CacheRead) -> Option<(Vec<u8>, Vec<u8>)> {
    trait Bytes { fn b(self) -> Option<Vec<u8>>; }
    impl Bytes for Vec<u8> { fn b(self) -> Option<Vec<u8>> { Some(self) } }
    impl<E> Bytes for Result<Vec<u8>, E> { fn b(self) -> Option<Vec<u8>> { self.ok() } }
    let so = r.get_stdout().b()?; let se = r.get_stderr().b()?;
    Some((so, se))
}

const NAMES: [&str; 9] = ["obj", "dwo", "gcno", "libfoo-0123456789abcdef.rlib", "d\u{e9}p.d", "a b/c.o", "", "x", "rmeta"];
const MODES: [u32; 6] = [0o100644, 0o100755, 0o100600, 0o104755, 0o100000, 0o100777];

struct Mem { name: String, content: Vec<u8>, mode: Option<u32> }

fn gen_entry(rng: &mut Rng, max_len: u64, zip64_name: bool) -> (Vec<Mem>, Vec<u8>) {
    let mut w = CacheWrite::new();
    let nm = 1 + rng.below(4) as usize;
    let mut members: Vec<Mem> = vec![];
    for k in 0..nm {
        let name = if zip64_name && k == nm - 1 { "PK\u{6}\u{7}aaaaaaaaaaaaaaaa".to_string() } else { rng.pick(&NAMES).to_string() };
        if members.iter().any(|m| m.name == name) { continue; }
        let len = match rng.below(8) { 0 => 0, 1 => 1, 2 => max_len, _ => rng.below(max_len + 1) };
        let compressible = rng.chance(1, 2);
        let mut content: Vec<u8> = (0..len).map(|i| if compressible { b"int main(){}\n"[(i % 13) as usize] } else { rng.below(256) as u8 }).collect();
        // outputs that are themselves compressed containers (a zstd frame, gzip / xz / zip magic in front of noise): "any contents"
        match rng.below(12) { 0 => content = zstd::stream::encode_all(Cursor::new(&content), 1).unwrap(),
            1 => { let mut c = vec![0x28, 0xb5, 0x2f, 0xfd]; c.extend(&content); content = c; }
            2 => { let mut c = vec![0x1f, 0x8b, 0x08, 0x00]; c.extend(&content); content = c; }
            3 => { let mut c = b"PK\x03\x04".to_vec(); c.extend(&content); content = c; }
            _ => {} }
        let mode = if rng.chance(1, 10) { None } else { Some(*rng.pick(&MODES)) };
        w.put_object(&name, &mut Cursor::new(content.clone()), mode).unwrap();
        members.push(Mem { name, content, mode });
    }
    if !zip64_name {
        for which in 0..2 {
            if rng.chance(2, 3) {
                let c: Vec<u8> = if rng.chance(1, 4) { vec![] } else { (0..1 + rng.below(20)).map(|_| rng.below(256) as u8).collect() };
                if which == 0 { w.put_stdout(&c).unwrap(); } else { w.put_stderr(&c).unwrap(); }
                // `put_bytes` skips empty streams: they are not members
                if !c.is_empty() { members.push(Mem { name: if which == 0 { "stdout".into() } else { "stderr".into() }, content: c, mode: None }); }
            }
        }
    }
    (members, w.finish().unwrap())
}

fn main() {
    quiet_panics();
    let a: Vec<String> = std::env::args().collect();
    match a.get(1).map(|s| s.as_str()) {
        Some("gen") => {
            let (nw, nf): (u64, u64) = (a[2].parse().unwrap(), a[3].parse().unwrap());
            let mut rng = Rng::from_env();
            let mut req = std::io::BufWriter::new(std::fs::File::create(&a[4]).unwrap());
            let mut real = std::io::BufWriter::new(std::fs::File::create(&a[5]).unwrap());
            let mut tr = std::io::BufWriter::new(std::fs::File::create(&a[6]).unwrap());
            let mut fails: Vec<String> = vec![]; let mut samples: Vec<String> = vec![];
            let (mut rt_members, mut big) = (0u64, 0u64);
            // ---- (1) writer tie + round-trip monitor on intact entries
            for e in 0..nw {
                let max_len = if e % 10 == 9 { 200_000 } else { 300 };
                let (members, bytes) = gen_entry(&mut rng, max_len, false);
                if max_len > 300 { big += 1; }
                let line: Vec<String> = members.iter().map(|m| {
                    let frame = zstd::stream::encode_all(Cursor::new(&m.content), 3).unwrap();
                    format!("{}:{}:{}", hex_e(m.name.as_bytes()), m.mode.map(|x| x.to_string()).unwrap_or("none".into()), hex_e(&frame)) }).collect();
                writeln!(req, "{}", if line.is_empty() { "-".to_string() } else { line.join(";") }).unwrap();
                writeln!(real, "{}", hex(&bytes)).unwrap();
                if samples.len() < 2 && bytes.len() < 400 { samples.push(format!("members [{}] -> archive {} bytes", members.iter().map(|m| format!("{}:{}B:{:?}", m.name, m.content.len(), m.mode)).collect::<Vec<_>>().join(", "), bytes.len())); }
                for m in &members {
                    rt_members += 1;
                    match cache_level(&bytes, &m.name) {
                        Some((mode, d)) if d == m.content => {
                            let want = m.mode.map(|x| x & 0o777);
                            let got = mode.map(|x| x & 0o777);
                            if m.mode.is_some() && got != want { fails.push(fail_json("mode_changed", &format!("member {} stored mode {:o} read back {:?}", m.name, m.mode.unwrap(), mode), &[hex(&bytes), hex_e(m.name.as_bytes()), hex_e(&m.content)], "")); }
                        }
                        other => fails.push(fail_json("roundtrip_failed", &format!("intact entry, member {} ({} bytes): {}", m.name, m.content.len(), if other.is_none() { "unreadable" } else { "different contents" }), &[hex(&bytes), hex_e(m.name.as_bytes()), hex_e(&m.content)], "")),
                    }
                }
            }
            // ---- (1b) the server's own store and restore paths on *files*: CacheWrite::from_objects -> finish -> CacheRead::from ->
            //      extract_objects, over sizes from empty to beyond 128 MiB (2^27, the default zstd decoder window limit) and three kinds of content
            let rt = tokio::runtime::Builder::new_multi_thread().worker_threads(2).enable_all().build().unwrap();
            let mut file_rt = 0u64; let mut file_sizes: Vec<u64> = vec![];
            {
                use sccache::verif::FileObjectSource;
                use std::os::unix::fs::PermissionsExt;
                let big_sizes: Vec<u64> = std::env::var("VERIF_ENTRY_FILE_SIZES").ok().map(|v| v.split(',').filter_map(|x| x.parse().ok()).collect())
                    .unwrap_or_else(|| vec![0, 1, 4095, (1 << 20) + 7, (32 << 20) + 11, (136 << 20) + 3]);
                let tmp = tempfile::tempdir().unwrap();
                for (ci, &size) in big_sizes.iter().enumerate() {
                    let kind = (ci as u64 + rng.below(3)) % 3;
                    let src = tmp.path().join("src.o"); let dst = tmp.path().join("dst.o");
                    {
                        let mut f = std::io::BufWriter::new(std::fs::File::create(&src).unwrap());
                        let mut x = rng.next(); let mut left = size; let block: Vec<u8> = (0..65536u32).map(|i| (i % 251) as u8).collect();
                        while left > 0 {
                            let n = left.min(65536) as usize;
                            match kind {
                                0 => f.write_all(&vec![0u8; n]).unwrap(),
                                1 => f.write_all(&block[..n]).unwrap(),
                                _ => { let b: Vec<u8> = (0..n).map(|_| { x ^= x << 13; x ^= x >> 7; x ^= x << 17; (x >> 24) as u8 }).collect(); f.write_all(&b).unwrap() }
                            }
                            left -= n as u64;
                        }
                    }
                    let mode = *rng.pick(&[0o644u32, 0o755, 0o600]);
                    std::fs::set_permissions(&src, std::fs::Permissions::from_mode(mode)).unwrap();
                    let want = blake3_file(&src);
                    let objs = vec![FileObjectSource { key: "obj".into(), path: src.clone(), optional: false }, FileObjectSource { key: "dwo".into(), path: tmp.path().join("absent.dwo"), optional: true }];
                    let desc = format!("file of {} bytes ({}), mode {:o}", size, ["zeros", "periodic", "pseudo-random"][kind as usize], mode);
                    let packed = rt.block_on(CacheWrite::from_objects(objs, rt.handle())).and_then(|w| w.finish());
                    file_rt += 1; file_sizes.push(size);
                    match packed {
                        Err(e) => fails.push(fail_json("file_roundtrip_failed", &format!("{}: packing failed: {:#}", desc, e), &[desc.clone()], "")),
                        Ok(bytes) => {
                            let _ = std::fs::remove_file(&dst);
                            let back = vec![FileObjectSource { key: "obj".into(), path: dst.clone(), optional: false }, FileObjectSource { key: "dwo".into(), path: tmp.path().join("back.dwo"), optional: true }];
                            let r = CacheRead::from(Cursor::new(bytes)).and_then(|r| rt.block_on(r.extract_objects(back, rt.handle())));
                            match r {
                                Err(e) => fails.push(fail_json("file_roundtrip_failed", &format!("{}: the intact entry cannot be restored: {:#}", desc, e), &[desc.clone()], "")),
                                Ok(_) => {
                                    let got = blake3_file(&dst); let gm = std::fs::metadata(&dst).map(|m| m.permissions().mode() & 0o777).unwrap_or(0);
                                    if got != want { fails.push(fail_json("file_roundtrip_failed", &format!("{}: restored contents differ", desc), &[desc.clone()], "")); }
                                    else if gm != mode { fails.push(fail_json("mode_changed", &format!("{}: restored with mode {:o}", desc, gm), &[desc.clone()], "")); }
                                    if tmp.path().join("back.dwo").exists() { fails.push(fail_json("file_roundtrip_failed", &format!("{}: an output that was never stored appeared", desc), &[desc.clone()], "")); }
                                }
                            }
                        }
                    }
                }
            }
            // ---- (2)+(3) exhaustive truncations and substitutions on small entries
            let (mut cases, mut fail, mut same, mut diff, mut incons) = (0u64, 0u64, 0u64, 0u64, 0u64);
            let (mut comp_cases, mut comp_fail, mut comp_same, mut comp_diff) = (0u64, 0u64, 0u64, 0u64); let mut comp_reported = std::collections::HashSet::new();
            let comp_tmp = tempfile::tempdir().unwrap(); let comp_dir = comp_tmp.path().join("x");
            for e in 0..nf {
                let (members, good) = gen_entry(&mut rng, 40, e == nf - 1);
                let mut variants: Vec<(Vec<u8>, String)> = vec![(good.clone(), "intact".into())];
                for t in 0..good.len() { variants.push((good[..t].to_vec(), format!("trunc@{}", t))); }
                for p in 0..good.len() {
                    let r = rng.below(256) as u8;
                    for v in [good[p] ^ 1, good[p] ^ 0x80, 0u8, 0xff, b'P', r] {
                        if v == good[p] { continue; }
                        let mut b = good.clone(); b[p] = v; variants.push((b, format!("subst@{}={}", p, v)));
                    }
                }
                let outputs: Vec<(String, bool)> = members.iter().filter(|m| m.name != "stdout" && m.name != "stderr").map(|m| (m.name.clone(), rng.chance(1, 2))).collect();
                let orig_stream = |n: &str| members.iter().find(|m| m.name == n).map(|m| m.content.clone()).unwrap_or_default();
                for (bytes, kind) in variants {
                    // ---- the restore as the server performs it on a hit: all or nothing, and nothing but the original
                    comp_cases += 1;
                    match composite(&bytes, &outputs, &comp_dir, &rt) {
                        None => comp_fail += 1,
                        Some((so, se, files)) => {
                            let mut bad: Vec<String> = vec![];
                            // a member whose *name* no longer appears in the central directory cannot be told from one that was never stored
                            let in_dir = |n: &str| zip::ZipArchive::new(Cursor::new(bytes.clone())).map(|z| z.file_names().any(|x| x == n)).unwrap_or(false);
                            let mut lost_named = 0; let mut lost_renamed = 0;
                            if so.is_empty() && !orig_stream("stdout").is_empty() { if in_dir("stdout") { lost_named += 1 } else { lost_renamed += 1 } }
                            if se.is_empty() && !orig_stream("stderr").is_empty() { if in_dir("stderr") { lost_named += 1 } else { lost_renamed += 1 } }
                            if so != orig_stream("stdout") { bad.push(format!("stdout: {} bytes instead of {}", so.len(), orig_stream("stdout").len())); }
                            if se != orig_stream("stderr") { bad.push(format!("stderr: {} bytes instead of {}", se.len(), orig_stream("stderr").len())); }
                            let mut aliased = false;
                            for (i, (name, opt)) in outputs.iter().enumerate() {
                                let m = members.iter().find(|m| &m.name == name).unwrap();
                                match files.get(i).and_then(|x| x.as_ref()) {
                                    None => { if in_dir(name) { lost_named += 1 } else { lost_renamed += 1 } bad.push(format!("output {:?} ({}) was not restored", name, if *opt { "optional" } else { "required" })) }
                                    Some((b, _)) if *b != m.content => { if members.iter().any(|o| o.name != m.name && o.content == *b) { aliased = true; } bad.push(format!("output {:?}: {} bytes instead of the original {}", name, b.len(), m.content.len())) }
                                    Some(_) => {}
                                }
                            }
                            if bad.is_empty() { comp_same += 1; } else {
                                comp_diff += 1;
                                let k = if aliased { "member_aliasing" } else if lost_named > 0 { "restore_incomplete" } else if lost_renamed > 0 && lost_renamed == bad.len() { "restore_incomplete_renamed_member" } else { "different_contents" };
                                if comp_reported.insert((k, kind.split('@').next().unwrap().to_string(), bad[0].split(':').next().unwrap().to_string())) {
                                    fails.push(fail_json(k, &format!("{}: the restore succeeded (cache hit) but {}", kind.split('=').next().unwrap(), bad.join("; ")), &[hex(&bytes), format!("outputs (name, optional): {:?}", outputs), format!("members: {}", members.iter().map(|m| format!("{:?}:{}B", m.name, m.content.len())).collect::<Vec<_>>().join(", "))], ""));
                                }
                            }
                        }
                    }
                    for m in &members {
                        cases += 1;
                        let z = zip_level(&bytes, &m.name);
                        let c = cache_level(&bytes, &m.name);
                        let expect_c = z.as_ref().and_then(|(md, stored)| zstd::stream::decode_all(Cursor::new(stored.clone())).ok().map(|d| (*md, d)));
                        if c != expect_c { incons += 1; }
                        match &c {
                            None => fail += 1,
                            Some((_, d)) if *d == m.content => same += 1,
                            Some((_, d)) => { diff += 1;
                                // contents of *another member of the same entry* returned under this name = the central directory now carries two equal names
                                let aliased = members.iter().find(|o| o.name != m.name && o.content == *d);
                                let (k, extra) = match aliased { Some(o) => ("member_aliasing", format!(" = contents of member {:?} (requested {:?})", o.name, m.name)), None => ("different_contents", String::new()) };
                                fails.push(fail_json(k, &format!("{} member {:?}: got {} bytes instead of the original {}{}", kind.split('=').next().unwrap(), m.name, d.len(), m.content.len(), extra), &[hex(&bytes), hex_e(m.name.as_bytes()), hex_e(&m.content)], "")); }
                        }
                        if kind == "intact" && c.is_none() {
                            let zip64 = members.last().map(|x| x.name.starts_with("PK\u{6}\u{7}")).unwrap_or(false);
                            fails.push(fail_json("intact_refused", &format!("member {:?} of an intact entry cannot be read{}", m.name, if zip64 { " [last member name starts with the zip64 locator signature]" } else { "" }), &[hex(&bytes), hex_e(m.name.as_bytes()), hex_e(&m.content)], ""));
                        }
                        let zs = match &z { None => "FAIL".to_string(), Some((md, s)) => format!("OK {} {}", md.map(|x| x.to_string()).unwrap_or("none".into()), hex_e(s)) };
                        writeln!(tr, "{}\t{}\t{}\t{}", hex_e(&bytes), hex_e(m.name.as_bytes()), zs, kind).unwrap();
                    }
                }
            }
            std::fs::write(&a[7], format!("{{\"file_roundtrips\":{},\"file_roundtrip_sizes\":{:?},\"restore_cases\":{},\"restore_failed\":{},\"restore_identical\":{},\"restore_different\":{},\"writer_entries\":{},\"large_entries\":{},\"roundtrip_members\":{},\"fault_entries\":{},\"fault_cases\":{},\"cacheread_fail\":{},\"cacheread_identical\":{},\"cacheread_different\":{},\"inconsistent_with_zip_plus_zstd\":{},\"monitor_failures\":[{}],\"samples\":[{}]}}",
                file_rt, file_sizes, comp_cases, comp_fail, comp_same, comp_diff, nw, big, rt_members, nf, cases, fail, same, diff, incons, fails.join(","), samples.iter().map(|s| jstr(s)).collect::<Vec<_>>().join(","))).unwrap();
        }
        Some("cmp") => {
            let r = std::fs::read_to_string(&a[2]).unwrap(); let m = std::fs::read_to_string(&a[3]).unwrap();
            let (r, m): (Vec<&str>, Vec<&str>) = (r.lines().collect(), m.lines().collect());
            let mut bad = 0; if r.len() != m.len() { bad += 1; println!("MISMATCH line counts {} {}", r.len(), m.len()); }
            for i in 0..r.len().min(m.len()) { if r[i] != m[i] { bad += 1; if bad <= 3 {
                let p = r[i].bytes().zip(m[i].bytes()).position(|(x, y)| x != y).unwrap_or(r[i].len().min(m[i].len()));
                println!("MISMATCH entry {}: archives differ at byte {} (real {} bytes, model {} bytes)", i + 1, p / 2, r[i].len() / 2, m[i].len() / 2); } } }
            println!("mismatches: {}", bad);
        }
        Some("replay") => {
            let s = std::fs::read_to_string(&a[2]).unwrap(); let l: Vec<&str> = s.lines().filter(|l| !l.starts_with('#') && !l.trim().is_empty()).collect();
            let bytes = unhex(l[0]); let name = String::from_utf8(if l[1] == "e" { vec![] } else { unhex(l[1]) }).unwrap(); let want = if l[2] == "e" { vec![] } else { unhex(l[2]) };
            match cache_level(&bytes, &name) {
                None => { println!("CacheRead: FAIL (treated as a miss)"); std::process::exit(0) }
                Some((m, d)) if d == want => { println!("CacheRead: identical contents, mode {:?}", m); std::process::exit(0) }
                Some((_, d)) => { println!("CacheRead: DIFFERENT contents ({} bytes, expected {})", d.len(), want.len()); std::process::exit(1) }
            }
        }
        _ => { eprintln!("usage"); std::process::exit(2); }
    }
}
