//! C10: the real `CacheRead::extract_objects` over existing output files, with descriptors opened beforehand, hard
//! links, and entries whose later members are corrupt or missing.  Emits the run as actions of `Model/Atomic.lean`
//! (an extraction of one output = a two-phase store to that path: temp file in the destination directory, chunk writes,
//! rename on success / drop on failure; a reader = `extOpen` + `getRead`) for `modeld atomic`; monitor: an old
//! descriptor reads the complete old bytes, every output path holds a complete old or complete new file, the inode
//! changed, a hard link keeps the old bytes, no temporary file is left behind.
//! usage: h_extract gen <n_cases> <trace_out> <summary_out>
use sccache::verif::{CacheRead, CacheWrite, FileObjectSource};
use std::io::{Cursor, Read, Write};
use std::os::unix::fs::MetadataExt;
use verif_harness::*;

fn body(k: u64, v: u64, total: u64) -> Vec<u8> { (0..total).map(|i| format!("{}:{}:{}:{}\n", k, v, total, i)).collect::<String>().into_bytes() }
fn decode(b: &[u8]) -> Option<(u64, u64, u64, u64)> {
    let s = std::str::from_utf8(b).ok()?; let mut hdr = None; let mut n = 0u64;
    if !s.is_empty() && !s.ends_with('\n') { return None; }
    for l in s.lines() { let p: Vec<u64> = l.split(':').map(|x| x.parse().ok()).collect::<Option<Vec<_>>>()?; if p.len() != 4 || p[3] != n { return None; }
        match hdr { None => hdr = Some((p[0], p[1], p[2])), Some(h) => if h != (p[0], p[1], p[2]) { return None; } } n += 1; }
    hdr.map(|(k, v, t)| (k, v, n, t))
}

fn main() {
    let a: Vec<String> = std::env::args().collect();
    let n_cases: u64 = a[2].parse().unwrap(); let mut rng = Rng::from_env();
    let mut tr = std::io::BufWriter::new(std::fs::File::create(&a[3]).unwrap());
    let rt = tokio::runtime::Builder::new_multi_thread().enable_all().worker_threads(2).build().unwrap();
    let mut fails = vec![]; let mut samples = vec![]; let (mut readers_checked, mut failing_cases, mut outputs) = (0u64, 0u64, 0u64); let mut fault_cases = 0u64; let mut n_symlinked = 0u64;
    for case in 0..n_cases {
        let dir = tempfile::tempdir().unwrap();
        // every fifth case is a write-fault case: large new objects and a file-size limit (EFBIG, like ENOSPC / EDQUOT / EIO) that strikes in the
        // middle of the first output's restore
        let fault = case % 5 == 4; if fault { fault_cases += 1; }
        let nout = if fault { 1 + rng.below(2) } else { 1 + rng.below(3) }; let mut lines: Vec<String> = vec!["new".into()]; let mut tid = 0u64;
        // ---- existing (old) outputs, version 1
        let mut old: Vec<Option<u64>> = vec![];
        let mut symlinked: Vec<u64> = vec![];
        for k in 0..nout { if rng.chance(3, 4) { let n = 1 + rng.below(3);
                // one existing output in four is a symbolic link to the file holding the old bytes (the restore must replace the link, not write through it)
                if rng.chance(1, 4) { let t = dir.path().join(format!("linktarget{}", k)); std::fs::write(&t, body(k, 1, n)).unwrap(); std::os::unix::fs::symlink(&t, dir.path().join(format!("out{}.o", k))).unwrap(); symlinked.push(k); }
                else { std::fs::write(dir.path().join(format!("out{}.o", k)), body(k, 1, n)).unwrap(); }
                old.push(Some(n));
                lines.push(format!("spawnPut {} {} 1 {} -> * | *", tid, k, n)); lines.push(format!("putPrepare {} -> * | *", tid)); for _ in 0..n { lines.push(format!("putWrite {} -> * | *", tid)); } lines.push(format!("putCommit {} -> * | *", tid)); tid += 1; }
            else { old.push(None); } }
        n_symlinked += symlinked.len() as u64;
        // ---- readers that opened the old files, and hard links
        let mut fds: Vec<(u64, u64, std::fs::File)> = vec![]; let mut links = vec![];
        for k in 0..nout { if old[k as usize].is_some() {
            if rng.chance(2, 3) { let f = std::fs::File::open(dir.path().join(format!("out{}.o", k))).unwrap(); lines.push(format!("spawnGet {} {} -> * | *", tid, k)); lines.push(format!("extOpen {} -> * | *", tid)); fds.push((tid, k, f)); tid += 1; }
            if rng.chance(1, 3) { let l = dir.path().join(format!("link{}", k)); std::fs::hard_link(dir.path().join(format!("out{}.o", k)), &l).unwrap(); links.push((k, l)); } } }
        // ---- the entry (new version 2), possibly with a corrupt or missing member
        let mut w = CacheWrite::new(); let mut news = vec![]; let bad = if !fault && rng.chance(1, 2) { Some(rng.below(nout)) } else { None }; let bad_kind = rng.below(2);
        for k in 0..nout { let big = if rng.chance(1, 2) { 6000 } else { 40000 }; let n = if fault { 1500 + rng.below(big) } else { 1 + rng.below(3) }; news.push(n);
            if bad == Some(k) && bad_kind == 1 { continue; }     // member missing from the entry
            w.put_object(&format!("obj{}", k), &mut Cursor::new(body(k, 2, n)), Some(0o100644)).unwrap(); }
        let mut bytes = w.finish().unwrap();
        if let (Some(k), 0) = (bad, bad_kind) {     // flip one byte inside the member's stored data: the CRC check fails at the end
            let mut z = zip::ZipArchive::new(Cursor::new(bytes.clone())).unwrap(); let (start, len) = { let f = z.by_name(&format!("obj{}", k)).unwrap(); (f.data_start(), f.compressed_size()) };
            bytes[(start + len / 2) as usize] ^= 0x5a; }
        let optional: Vec<bool> = (0..nout).map(|_| rng.chance(1, 4)).collect();
        let objs: Vec<FileObjectSource> = (0..nout).map(|k| FileObjectSource { key: format!("obj{}", k), path: dir.path().join(format!("out{}.o", k)), optional: optional[k as usize] }).collect();
        let inodes_before: Vec<Option<u64>> = (0..nout).map(|k| std::fs::metadata(dir.path().join(format!("out{}.o", k))).ok().map(|m| m.ino())).collect();
        let mut saved = libc::rlimit { rlim_cur: 0, rlim_max: 0 };
        if fault { let size0 = body(0, 2, news[0]).len() as u64; let limit = 4096 + rng.below(size0 - 4096 - 1);
            unsafe { libc::signal(libc::SIGXFSZ, libc::SIG_IGN); libc::getrlimit(libc::RLIMIT_FSIZE, &mut saved); let r = libc::rlimit { rlim_cur: limit, rlim_max: saved.rlim_max }; libc::setrlimit(libc::RLIMIT_FSIZE, &r); } }
        let res = rt.block_on(async { CacheRead::from(Cursor::new(bytes)).unwrap().extract_objects(objs, rt.handle()).await });
        if fault { unsafe { libc::setrlimit(libc::RLIMIT_FSIZE, &saved); } }
        // ---- what extract_objects does, as model actions (final observations only: the call is one blocking unit)
        let mut stopped = false;
        for k in 0..nout { if stopped { break; }
            lines.push(format!("spawnPut {} {} 2 {} -> * | *", tid, k, news[k as usize])); lines.push(format!("putPrepare {} -> * | *", tid));
            // a member that is absent is skipped when optional; one that is present but damaged ends the restore, optional or not (fix of F-C08-c)
            if fault { lines.push(format!("putAbort {} -> * | *", tid)); stopped = true; }     // the write fails part-way: nothing is installed, the restore ends
            else if bad == Some(k) { lines.push(format!("putAbort {} -> * | *", tid)); if !optional[k as usize] || bad_kind == 0 { stopped = true; } }
            else { for _ in 0..news[k as usize] { lines.push(format!("putWrite {} -> * | *", tid)); } lines.push(format!("putCommit {} -> * | *", tid)); }
            tid += 1; }
        let expect_err = fault || bad.map(|k| !optional[k as usize] || bad_kind == 0).unwrap_or(false);
        if res.is_err() != expect_err { fails.push(fail_json("unexpected_result", &format!("extract_objects returned {} ({}{} member {:?}, optional {:?})", if res.is_err() { "Err" } else { "Ok" }, if fault { "write fault in the first output; " } else { "" }, if bad_kind == 0 { "damaged" } else { "absent" }, bad, optional), &lines, "")); }
        if bad.is_some() { failing_cases += 1; }
        // ---- readers read through their old descriptors
        for (t, k, mut f) in fds { let mut b = vec![]; f.read_to_end(&mut b).unwrap(); readers_checked += 1;
            match decode(&b) { Some((ck, cv, wr, tot)) => { lines.push(format!("getRead {} -> hit {} {}:{}:{}/{} | *", t, t, ck, cv, wr, tot));
                    if !(ck == k && cv == 1 && wr == tot) { fails.push(fail_json("old_reader_saw_other_bytes", &format!("descriptor opened on out{}.o before the hit read {}:{}:{}/{}", k, ck, cv, wr, tot), &lines, "")); } }
                None => { lines.push(format!("getRead {} -> hit {} mixed | *", t, t)); fails.push(fail_json("old_reader_saw_mixed_bytes", &format!("descriptor on out{}.o", k), &lines, "")); } } }
        for (k, l) in &links { match decode(&std::fs::read(l).unwrap()) { Some((_, 1, wr, tot)) if wr == tot => {}, other => fails.push(fail_json("hard_link_rewritten", &format!("a hard link to out{}.o made before the hit now reads {:?}", k, other), &lines, "")) } }
        for k in &symlinked { match decode(&std::fs::read(dir.path().join(format!("linktarget{}", k))).unwrap()) { Some((_, 1, wr, tot)) if wr == tot => {},
            other => fails.push(fail_json("symlink_target_rewritten", &format!("out{}.o was a symbolic link; the file it pointed to now reads {:?} (the restore wrote through the link instead of replacing it)", k, other), &lines, "")) } }
        // ---- final state of the directory
        let mut files = vec![]; let mut temps = 0; let mut idx = String::new();
        for k in 0..4u64 { let p = dir.path().join(format!("out{}.o", k));
            match std::fs::read(&p) { Ok(b) => { idx.push('1'); outputs += 1;
                    match decode(&b) { Some((ck, cv, wr, tot)) => { files.push(format!("{}={}:{}:{}/{}", k, ck, cv, wr, tot));
                            if ck != k || wr != tot { fails.push(fail_json("partial_output", &format!("out{}.o holds {}:{}:{}/{}", k, ck, cv, wr, tot), &lines, "")); }
                            if cv == 2 && inodes_before[k as usize].is_some() && std::fs::metadata(&p).unwrap().ino() == inodes_before[k as usize].unwrap() { fails.push(fail_json("rewritten_in_place", &format!("out{}.o has new contents under the old inode", k), &lines, "")); } }
                        None => { files.push(format!("{}=mixed", k)); fails.push(fail_json("mixed_output", &format!("out{}.o", k), &lines, "")); } } }
                Err(_) => idx.push('0') } }
        for e in std::fs::read_dir(dir.path()).unwrap().flatten() { let n = e.file_name().to_string_lossy().to_string(); if !(n.starts_with("out") || n.starts_with("link")) { temps += 1; } }
        if temps != 0 { fails.push(fail_json("temp_left_behind", &format!("{} temporary file(s) left in the output directory", temps), &lines, "")); }
        lines.push(format!("evict 9 -> - | idx={} files={} temps={}", idx, files.join(","), temps));     // a no-op action carrying the final observation
        for l in &lines { writeln!(tr, "{}", l).unwrap(); }
        if samples.len() < 2 && bad.is_some() && case > 1 { samples.push(lines.join(" ; ")); }
    }
    // ---- concurrent restores of one output path (two hits for the same output at the same moment: duplicate rules under -j, a retried compile):
    //      both must succeed, the path must hold one of the two objects completely, nothing else may be left in the directory
    let conc_rounds = (n_cases / 40).max(3).min(25); let mut conc_done = 0u64;
    for round in 0..conc_rounds {
        let dir = tempfile::tempdir().unwrap(); let out = dir.path().join("out0.o");
        std::fs::write(&out, body(0, 1, 3)).unwrap();
        let mk = |v: u64, n: u64| { let mut w = CacheWrite::new(); w.put_object("obj0", &mut Cursor::new(body(0, v, n)), Some(0o100644)).unwrap(); w.finish().unwrap() };
        let (na, nb) = (200_000 + rng.below(200_000), 100_000 + rng.below(300_000));
        let (ea, eb) = (mk(2, na), mk(3, nb));
        let objs = |p: &std::path::Path| vec![FileObjectSource { key: "obj0".into(), path: p.to_path_buf(), optional: false }];
        let h = rt.handle().clone(); let (oa, ob) = (objs(&out), objs(&out));
        let (ra, rb) = rt.block_on(async {
            let ta = tokio::spawn({ let h = h.clone(); async move { CacheRead::from(Cursor::new(ea)).unwrap().extract_objects(oa, &h).await } });
            let tb = tokio::spawn({ let h = h.clone(); async move { CacheRead::from(Cursor::new(eb)).unwrap().extract_objects(ob, &h).await } });
            (ta.await.unwrap(), tb.await.unwrap()) });
        conc_done += 1;
        let ops = vec![format!("round {}: two extract_objects calls at once onto one existing output path (objects of {} and {} lines)", round, na, nb)];
        if ra.is_err() || rb.is_err() { fails.push(fail_json("concurrent_restore_failed", &format!("one of two simultaneous restores of the same output failed: {:?} / {:?}", ra.as_ref().err().map(|e| format!("{:#}", e)), rb.as_ref().err().map(|e| format!("{:#}", e))), &ops, "")); }
        match decode(&std::fs::read(&out).unwrap_or_default()) {
            Some((0, v, wr, tot)) if (v == 2 || v == 3) && wr == tot => {}
            other => fails.push(fail_json("mixed_output", &format!("after two simultaneous restores the output holds neither object completely: {:?}", other), &ops, "")) }
        let left: Vec<String> = std::fs::read_dir(dir.path()).unwrap().flatten().map(|e| e.file_name().to_string_lossy().to_string()).filter(|n| n != "out0.o").collect();
        if !left.is_empty() { fails.push(fail_json("temp_left_behind", &format!("after two simultaneous restores: {:?}", left), &ops, "")); }
    }
    std::fs::write(&a[4], format!("{{\"cases\":{},\"concurrent_restore_rounds\":{},\"write_fault_cases\":{},\"cases_with_failing_member\":{},\"old_descriptors_checked\":{},\"symlinked_outputs\":{},\"output_files_checked\":{},\"monitor_failures\":[{}],\"samples\":[{}]}}",
        n_cases, conc_done, fault_cases, failing_cases, readers_checked, n_symlinked, outputs, fails.join(","), samples.iter().map(|s| jstr(s)).collect::<Vec<_>>().join(","))).unwrap();
}
