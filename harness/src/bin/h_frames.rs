//! C11 (last clause: "malformed or oversized messages on one connection do not terminate the server or disturb requests on other
//! connections") and the client/server wire format.  Two ties to `Model/Frame.lean`:
//!   codec  — `bincode::serialize(&Request)` / `bincode::deserialize::<Request>` (what `BincodeCodec` calls) on generated requests,
//!            mutated encodings and arbitrary bytes, against `FrameM.encReq` / `FrameM.decReq`;
//!   conn   — the real server (`SccacheServer::run` on an in-memory listener, hook H8): byte streams made of valid frames, undecodable
//!            frames, oversized length prefixes and truncated frames, cut into reads at arbitrary places, sent on one connection while a
//!            second connection keeps asking for statistics; what the first connection answers (one response kind per request, then
//!            end-of-stream if the connection was ended) against `FrameM.feedAll`.
//! monitors (without the model): the witness connection is answered every time; after the garbage a fresh connection is served;
//! the server loop does not return.
//! usage: h_frames gen <n_codec> <n_conn> <trace_out> <summary_out>
use sccache::server::{DistClientContainer, SccacheServer};
use sccache::verif::*;
use std::ffi::OsString;
use std::io::Write;
use std::os::unix::ffi::{OsStrExt, OsStringExt};
use std::sync::{Arc, Mutex};
use std::time::Duration;
use tokio::io::{AsyncReadExt, AsyncWriteExt, DuplexStream};
use verif_harness::*;

struct MemListener { rx: tokio::sync::Mutex<tokio::sync::mpsc::UnboundedReceiver<DuplexStream>> }
impl Acceptor for MemListener {
    type Socket = DuplexStream;
    fn accept(&self) -> impl std::future::Future<Output = tokio::io::Result<DuplexStream>> + Send {
        async move { match self.rx.lock().await.recv().await { Some(s) => Ok(s), None => std::future::pending().await } }
    }
    fn local_addr(&self) -> tokio::io::Result<Option<NetSocketAddr>> { Ok(None) }
}

fn os(rng: &mut Rng, max: u64) -> OsString { let n = rng.below(max + 1); OsString::from_vec((0..n).map(|_| if rng.chance(1, 6) { rng.below(256) as u8 } else { b'a' + rng.below(26) as u8 }).collect()) }
fn gen_request(rng: &mut Rng) -> Request {
    match rng.below(8) { 0 => Request::ZeroStats, 1 => Request::GetStats, 2 => Request::DistStatus, 3 => Request::Shutdown,
        _ => Request::Compile(Compile { exe: os(rng, 12), cwd: os(rng, 12), args: (0..rng.below(5)).map(|_| os(rng, 9)).collect(), env_vars: (0..rng.below(4)).map(|_| (os(rng, 6), os(rng, 8))).collect() }) }
}
fn show(r: &Request) -> String {
    let h = |o: &OsString| hex_e(o.as_bytes());
    match r { Request::ZeroStats => "zero".into(), Request::GetStats => "stats".into(), Request::DistStatus => "dist".into(), Request::Shutdown => "shutdown".into(),
        Request::Compile(c) => format!("compile {} {} {} {}", h(&c.exe), h(&c.cwd),
            if c.args.is_empty() { "-".into() } else { c.args.iter().map(h).collect::<Vec<_>>().join(",") },
            if c.env_vars.is_empty() { "-".into() } else { c.env_vars.iter().map(|(k, v)| format!("{}={}", h(k), h(v))).collect::<Vec<_>>().join(",") }) }
}
fn kind(r: &Request) -> &'static str { match r { Request::ZeroStats => "zero", Request::GetStats => "stats", Request::DistStatus => "dist", Request::Shutdown => "shutdown", Request::Compile(_) => "compile" } }

/// a body for a frame: a valid encoding, a mutated one, or noise
fn gen_body(rng: &mut Rng, allow_shutdown: bool) -> Vec<u8> {
    let mut r = gen_request(rng); while !allow_shutdown && matches!(r, Request::Shutdown) { r = gen_request(rng); }
    // compile requests name compilers that do not exist: the server answers them without running anything
    if let Request::Compile(c) = &mut r { c.exe = OsString::from("/nonexistent/cc"); c.cwd = OsString::from("/"); }
    let mut b = bincode::serialize(&r).unwrap();
    match rng.below(10) {
        0 => { if !b.is_empty() { let i = rng.below(b.len() as u64) as usize; b[i] = rng.below(256) as u8; } }            // one byte changed
        1 => { let n = rng.below(b.len() as u64 + 1) as usize; b.truncate(n); }                                      // cut short
        2 => { b.extend((0..rng.below(6)).map(|_| rng.below(256) as u8)); }                                          // trailing bytes
        3 => { b = (0..rng.below(24)).map(|_| rng.below(256) as u8).collect(); }                                     // noise
        4 => { b = (rng.below(12) as u32).to_le_bytes().to_vec(); }                                                   // a bare tag
        _ => {} }
    if !allow_shutdown && b.len() >= 4 && b[..4] == [3, 0, 0, 0] { b[0] = 1; }
    b
}

fn main() {
    let a: Vec<String> = std::env::args().collect();
    if a.get(1).map(|s| s.as_str()) != Some("gen") { eprintln!("usage: h_frames gen <n_codec> <n_conn> <trace_out> <summary_out>"); std::process::exit(2); }
    let n_codec: u64 = a[2].parse().unwrap(); let n_conn: u64 = a[3].parse().unwrap(); let mut rng = Rng::from_env();
    let mut tr = std::io::BufWriter::new(std::fs::File::create(&a[4]).unwrap());
    let mut fails: Vec<String> = vec![]; let mut samples: Vec<String> = vec![];
    // ---------------------------------------------------------------- codec
    let (mut enc_cases, mut dec_ok, mut dec_err) = (0u64, 0u64, 0u64);
    for _ in 0..n_codec {
        let r = gen_request(&mut rng); let b = bincode::serialize(&r).unwrap(); enc_cases += 1;
        writeln!(tr, "enc {} | {}", show(&r), hex_e(&b)).unwrap();
        let mut m = b.clone();
        match rng.below(6) { 0 => { if !m.is_empty() { let i = rng.below(m.len() as u64) as usize; m[i] = rng.below(256) as u8; } }
            1 => { let n = rng.below(m.len() as u64 + 1) as usize; m.truncate(n); }
            2 => m.extend((0..rng.below(9)).map(|_| rng.below(256) as u8)),
            3 => m = (0..rng.below(40)).map(|_| rng.below(256) as u8).collect(),
            4 => { if m.len() >= 12 { let i = 4 + rng.below((m.len() - 11) as u64) as usize; let v: u64 = if rng.chance(1, 2) { u64::MAX - rng.below(3) } else { rng.below(1 << 20) }; m[i..i + 8].copy_from_slice(&v.to_le_bytes()); } }
            _ => {} }
        match bincode::deserialize::<Request>(&m) { Ok(d) => { dec_ok += 1; writeln!(tr, "dec {} | {}", hex_e(&m), show(&d)).unwrap(); }
            Err(_) => { dec_err += 1; writeln!(tr, "dec {} | error", hex_e(&m)).unwrap(); } }
    }
    // ---------------------------------------------------------------- connections on the real server
    let tmp = tempfile::tempdir().unwrap();
    let (mut conn_cases, mut frames_sent, mut ended_by_error, mut oversized, mut truncated_tail, mut witness_requests) = (0u64, 0u64, 0u64, 0u64, 0u64, 0u64);
    for case in 0..n_conn {
        // the byte stream of the first connection
        let mut stream: Vec<u8> = vec![]; let mut descr = vec![];
        for _ in 0..(1 + rng.below(5)) {
            match rng.below(12) {
                0 => { let n: u32 = 8 * 1024 * 1024 + 1 + rng.below(1000) as u32; stream.extend(n.to_be_bytes()); stream.extend((0..rng.below(8)).map(|_| 7u8)); descr.push(format!("oversized-head({})", n)); oversized += 1; }
                1 => { let n: u32 = if rng.chance(1, 2) { u32::MAX } else { 0x8000_0000 + rng.below(99) as u32 }; stream.extend(n.to_be_bytes()); descr.push(format!("oversized-head({})", n)); oversized += 1; }
                _ => { let b = gen_body(&mut rng, false); stream.extend((b.len() as u32).to_be_bytes()); stream.extend(&b); descr.push(format!("frame({})", b.len())); frames_sent += 1; } } }
        if rng.chance(1, 4) { let n = rng.below(stream.len() as u64 + 1) as usize; if n < stream.len() { truncated_tail += 1; } stream.truncate(n); descr.push("cut".into()); }
        // cut into reads
        let mut chunks: Vec<Vec<u8>> = vec![]; let mut i = 0usize;
        while i < stream.len() { let n = match rng.below(4) { 0 => 1, 1 => 1 + rng.below(4) as usize, 2 => 1 + rng.below(40) as usize, _ => stream.len() - i }.min(stream.len() - i); chunks.push(stream[i..i + n].to_vec()); i += n; }
        if chunks.is_empty() { chunks.push(vec![]); }
        let rt = tokio::runtime::Builder::new_current_thread().enable_all().start_paused(true).build().unwrap();
        let (tx, rx) = tokio::sync::mpsc::unbounded_channel::<DuplexStream>();
        let storage = Arc::new(DiskCache::new(&tmp.path().join(format!("c{}", case % 4)), 1 << 20, rt.handle(), sccache::config::PreprocessorCacheModeConfig::default(), CacheMode::ReadWrite));
        let handle = rt.handle().clone();
        let mut srv = SccacheServer::<MemListener, ProcessCommandCreator>::with_listener(MemListener { rx: tokio::sync::Mutex::new(rx) }, rt, JobClient::new_num(1), DistClientContainer::new_disabled(), storage);
        srv.set_idle_timeout(Duration::from_secs(0));
        let out: Arc<Mutex<(Vec<String>, Vec<String>, bool)>> = Arc::new(Mutex::new((vec![], vec![], false)));     // answers on the first connection, monitor failures, script done
        let (htx, hrx) = tokio::sync::oneshot::channel::<()>();
        { let out = out.clone(); let chunks = chunks.clone();
          handle.spawn(async move {
              async fn read_frame(s: &mut DuplexStream) -> Option<Vec<u8>> { let mut l = [0u8; 4]; s.read_exact(&mut l).await.ok()?; let mut b = vec![0u8; u32::from_be_bytes(l) as usize]; s.read_exact(&mut b).await.ok()?; Some(b) }
              async fn ask_stats(s: &mut DuplexStream) -> bool { let b = bincode::serialize(&Request::GetStats).unwrap(); let mut f = (b.len() as u32).to_be_bytes().to_vec(); f.extend(&b);
                  if s.write_all(&f).await.is_err() { return false; }
                  matches!(read_frame(s).await.and_then(|b| bincode::deserialize::<Response>(&b).ok()), Some(Response::Stats(_))) }
              let (a1, b1) = tokio::io::duplex(1 << 24); let (mut w, bw) = tokio::io::duplex(1 << 16);
              tx.send(b1).unwrap(); tx.send(bw).unwrap();
              let (mut rd, mut wr) = tokio::io::split(a1);
              if !ask_stats(&mut w).await { out.lock().unwrap().1.push("witness connection not served before anything was sent".into()); }
              for ch in &chunks {
                  let _ = wr.write_all(ch).await; let _ = wr.flush().await;
                  tokio::time::sleep(Duration::from_millis(5)).await;      // lets the server take this read on its own
                  if !ask_stats(&mut w).await { out.lock().unwrap().1.push(format!("the witness connection was not answered after the first connection had sent {} bytes", ch.len())); }
              }
              // collect what the first connection answered: response kinds, then whether the server ended it
              let mut answers = vec![];
              loop {
                  let mut l = [0u8; 4];
                  match tokio::time::timeout(Duration::from_secs(30), rd.read_exact(&mut l)).await {
                      Err(_) => { answers.push("open".to_string()); break; }                 // still open, nothing more to read
                      Ok(Err(_)) => { answers.push("eof".to_string()); break; }
                      Ok(Ok(_)) => { let mut b = vec![0u8; u32::from_be_bytes(l) as usize]; if rd.read_exact(&mut b).await.is_err() { answers.push("eof".into()); break; }
                          answers.push(match bincode::deserialize::<Response>(&b) { Ok(Response::ZeroStats) => "zero".into(), Ok(Response::Stats(_)) => "stats".into(), Ok(Response::DistStatus(_)) => "dist".into(),
                              Ok(Response::ShuttingDown(_)) => "shutdown".into(), Ok(Response::Compile(_)) => "compile".into(), Ok(Response::CompileFinished(_)) => "compile-finished".into(), Err(_) => "undecodable".into() }); } } }
              // a fresh connection after all that
              let (mut f, bf) = tokio::io::duplex(1 << 16);
              if tx.send(bf).is_err() || !ask_stats(&mut f).await { out.lock().unwrap().1.push("a fresh connection after the malformed traffic was not served".into()); }
              { let mut g = out.lock().unwrap(); g.0 = answers; g.2 = true; }
              let _ = htx.send(());
              std::future::pending::<()>().await;
          }); }
        let r = srv.run(async move { let _ = hrx.await; });
        let g = out.lock().unwrap(); conn_cases += 1; witness_requests += chunks.len() as u64 + 2;
        let line = format!("conn {} | {}", chunks.iter().map(|c| hex_e(c)).collect::<Vec<_>>().join(","), if g.0.is_empty() { "-".to_string() } else { g.0.join(",") });
        let ops = vec![format!("stream: {}", descr.join(" ")), line.clone()];
        if !g.2 { fails.push(fail_json("server_loop_ended", &format!("SccacheServer::run returned ({:?}) while the script was still talking to it", r.as_ref().err().map(|e| e.to_string())), &ops, "")); }
        for m in &g.1 { fails.push(fail_json("other_connection_disturbed", m, &ops, "")); }
        if g.0.last().map(|s| s.as_str()) == Some("eof") { ended_by_error += 1; }
        writeln!(tr, "{}", line).unwrap();
        if samples.len() < 3 && g.0.len() > 2 { samples.push(format!("{} => {}", descr.join(" "), g.0.join(","))); }
    }
    tr.flush().unwrap();
    std::fs::write(&a[5], format!("{{\"codec_requests_encoded\":{},\"codec_decoded_ok\":{},\"codec_decode_errors\":{},\"connections\":{},\"frames_sent\":{},\"connections_ended_by_the_server\":{},\"oversized_heads\":{},\"streams_cut_mid_frame\":{},\"witness_requests\":{},\"monitor_failures\":[{}],\"samples\":[{}]}}",
        enc_cases, dec_ok, dec_err, conn_cases, frames_sent, ended_by_error, oversized, truncated_tail, witness_requests, fails.join(","), samples.iter().map(|s| jstr(s)).collect::<Vec<_>>().join(","))).unwrap();
    let _ = kind;
}
