// Probe (design round): the real `dist_or_local_compile` (through `get_cached_or_compile`) against a scripted
// `dist::Client` failing at each stage with each error class (C13). One line per case:
//   <stage>.<fault>\t<result class>\t<dist type>\t<output file: REMOTE | ELF | absent>\t<compiler ran locally: 0/1>
//! C13: the real `dist_or_local_compile` (through `get_cached_or_compile`) against a scripted `dist::Client` that fails
//! at each stage with each error class, and succeeds remotely with several exit codes — for `modeld dist`
//! (`DistM.distDecide`, exit-status mapping). Monitor: never success without correct outputs; no partial output left.
//! usage: h_dist <trace_out> <summary_out>
use verif_harness::*;
use sccache::dist::{self, AllocJobResult, JobAlloc, JobComplete, JobId, PathTransformer, ProcessOutput, RunJobResult, ServerId, SubmitToolchainResult, Toolchain};
use sccache::verif::*;
use std::ffi::OsString;
use std::io::Write;
use std::path::{Path, PathBuf};
use std::sync::Arc;
use std::time::Duration;

#[derive(Clone, Copy, Debug, PartialEq)]
enum Fault { RunExit(i32), SubmitHttp, SubmitTooLarge, AllocTooLarge, RunTooLarge, None, PutOther, PutHttp, PutTooLarge, AllocFail, AllocErr, AllocHttp, SubmitNotFound, SubmitCannotCache, SubmitErr, RunErr, RunHttp, RunNotFound, RunExit1, OutUnwritable, SecondOutUnwritable }

struct FakeDist { fault: Fault, extra_out: Option<String> }
fn http() -> anyhow::Error { sccache::errors::HttpClientError("403 scripted".into()).into() }
fn od(bytes: &[u8]) -> dist::OutputData {
    let mut e = flate2::write::ZlibEncoder::new(vec![], flate2::Compression::fast()); e.write_all(bytes).unwrap();
    bincode::deserialize(&bincode::serialize(&(e.finish().unwrap(), bytes.len() as u64)).unwrap()).unwrap()
}
#[async_trait::async_trait]
impl dist::Client for FakeDist {
    async fn do_alloc_job(&self, _tc: Toolchain) -> sccache::errors::Result<AllocJobResult> {
        match self.fault {
            Fault::AllocFail => Ok(AllocJobResult::Fail { msg: "no capacity".into() }),
            Fault::AllocErr => Err(anyhow::anyhow!("scheduler unreachable")),
            Fault::AllocHttp => Err(http()),
            Fault::AllocTooLarge => Err(sccache::lru_disk_cache::Error::FileTooLarge.into()),
            _ => Ok(AllocJobResult::Success { job_alloc: JobAlloc { auth: "a".into(), job_id: JobId(7), server_id: ServerId::new("127.0.0.1:1".parse().unwrap()) }, need_toolchain: true }),
        }
    }
    async fn do_get_status(&self) -> sccache::errors::Result<dist::SchedulerStatusResult> { Err(anyhow::anyhow!("unused")) }
    async fn do_submit_toolchain(&self, _j: JobAlloc, _tc: Toolchain) -> sccache::errors::Result<SubmitToolchainResult> {
        match self.fault { Fault::SubmitNotFound => Ok(SubmitToolchainResult::JobNotFound), Fault::SubmitCannotCache => Ok(SubmitToolchainResult::CannotCache),
                           Fault::SubmitErr => Err(anyhow::anyhow!("connection reset")), Fault::SubmitHttp => Err(http()), Fault::SubmitTooLarge => Err(sccache::lru_disk_cache::Error::FileTooLarge.into()), _ => Ok(SubmitToolchainResult::Success) }
    }
    async fn do_run_job(&self, _j: JobAlloc, _c: dist::CompileCommand, outputs: Vec<String>, _i: Box<dyn dist::pkg::InputsPackager>) -> sccache::errors::Result<(RunJobResult, PathTransformer)> {
        match self.fault {
            Fault::RunErr => Err(anyhow::anyhow!("server died")), Fault::RunHttp => Err(http()), Fault::RunTooLarge => Err(sccache::lru_disk_cache::Error::FileTooLarge.into()), Fault::RunNotFound => Ok((RunJobResult::JobNotFound, PathTransformer::new())),
            f => {
                use std::os::unix::process::ExitStatusExt;
                let code = if let Fault::RunExit(c) = f { c } else { 0 };
                let output = ProcessOutput::try_from(std::process::Output { status: std::process::ExitStatus::from_raw(code << 8), stdout: vec![], stderr: b"remote stderr\n".to_vec() }).unwrap();
                let mut outs: Vec<(String, dist::OutputData)> = if code == 0 { outputs.iter().map(|p| (p.clone(), od(b"REMOTE-OBJ"))).collect() } else { vec![] };
                if f == Fault::OutUnwritable { outs = vec![("/nonexistent-dir/x.o".to_string(), od(b"X"))]; }
                if f == Fault::SecondOutUnwritable { outs.push(("/nonexistent-dir/y.o".to_string(), od(b"Y"))); }
                if let Some(e) = &self.extra_out { let _ = e; }
                Ok((RunJobResult::Complete(JobComplete { output, outputs: outs }), PathTransformer::new()))
            }
        }
    }
    async fn put_toolchain(&self, _p: PathBuf, _k: String, _t: Box<dyn dist::pkg::ToolchainPackager>) -> sccache::errors::Result<(Toolchain, Option<(String, PathBuf)>)> {
        match self.fault { Fault::PutOther => Err(anyhow::anyhow!("cannot package")), Fault::PutHttp => Err(http()),
                           Fault::PutTooLarge => Err(sccache::lru_disk_cache::Error::FileTooLarge.into()), _ => Ok((Toolchain { archive_id: "tc".into() }, None)) }
    }
    fn rewrite_includes_only(&self) -> bool { false }
    fn get_custom_toolchain(&self, _exe: &Path) -> Option<PathBuf> { None }
}

struct NullStorage;
#[async_trait::async_trait]
impl Storage for NullStorage {
    async fn get(&self, _k: &str) -> sccache::errors::Result<Cache> { Ok(Cache::Miss) }
    async fn put(&self, _k: &str, _e: CacheWrite) -> sccache::errors::Result<Duration> { Ok(Duration::from_secs(0)) }
    fn location(&self) -> String { "null".into() }
    async fn current_size(&self) -> sccache::errors::Result<Option<u64>> { Ok(None) }
    async fn max_size(&self) -> sccache::errors::Result<Option<u64>> { Ok(None) }
}

fn main() {
    let a: Vec<String> = std::env::args().collect();
    let mut tr = std::io::BufWriter::new(std::fs::File::create(&a[1]).unwrap()); let mut fails: Vec<String> = vec![]; let mut samples: Vec<String> = vec![];
    let rt = tokio::runtime::Builder::new_multi_thread().enable_all().worker_threads(4).build().unwrap();
    let pool = rt.handle().clone();
    let tmp = tempfile::tempdir().unwrap();
    let cwd = tmp.path().join("w"); std::fs::create_dir_all(&cwd).unwrap();
    let log = tmp.path().join("cc.log");
    let wrapper = tmp.path().join("gcc");
    std::fs::write(&wrapper, format!("#!/bin/sh\ncase \" $* \" in *\" -E \"*) ;; *) echo run >> {} ;; esac\nexec /usr/bin/gcc \"$@\"\n", log.display())).unwrap();
    use std::os::unix::fs::PermissionsExt;
    std::fs::set_permissions(&wrapper, std::fs::Permissions::from_mode(0o755)).unwrap();
    let storage: Arc<dyn Storage> = Arc::new(NullStorage);
    let service = sccache::server::SccacheService::<ProcessCommandCreator>::mock_with_storage(storage.clone(), pool.clone());
    let jobserver = JobClient::new_num(2);
    let creator = <ProcessCommandCreator as CommandCreatorSync>::new(&jobserver);
    let env: Vec<(OsString, OsString)> = vec![("PATH".into(), "/usr/bin:/bin".into())];
    use Fault::*;
    let mut n = 0;
    for fault in [None, PutOther, PutHttp, PutTooLarge, AllocFail, AllocErr, AllocHttp, AllocTooLarge, SubmitNotFound, SubmitCannotCache, SubmitErr, SubmitHttp, SubmitTooLarge, RunErr, RunHttp, RunTooLarge, RunNotFound, RunExit(1), RunExit(2), RunExit(42), RunExit(127), RunExit(255), OutUnwritable, SecondOutUnwritable] {
        n += 1;
        let src = cwd.join(format!("t{}.c", n)); std::fs::write(&src, format!("int f{}(void){{return {};}}\n", n, n)).unwrap();
        let obj = cwd.join(format!("t{}.o", n));
        let args: Vec<OsString> = vec!["-c".into(), src.file_name().unwrap().into(), "-o".into(), obj.file_name().unwrap().into()];
        let _ = std::fs::remove_file(&log);
        let dc: Arc<dyn dist::Client> = Arc::new(FakeDist { fault, extra_out: Option::None });
        let res = rt.block_on(async {
            let (compiler, _) = get_compiler_info(creator.clone(), &wrapper, &cwd, &args, &env, &pool, Option::None).await.unwrap();
            let hasher = match compiler.parse_arguments(&args, &cwd, &env) { CompilerArguments::Ok(h) => h, _ => panic!("parse") };
            let fut = hasher.get_cached_or_compile(&service, Some(dc), creator.clone(), storage.clone(), args.clone(), cwd.clone(), env.clone(), CacheControl::Default, pool.clone());
            use futures::FutureExt;
            match std::panic::AssertUnwindSafe(fut).catch_unwind().await {
                Err(_) => ("PANIC".to_string(), "-".to_string()),
                Ok(Err(e)) => (format!("Err({})", format!("{:#}", e).chars().take(60).collect::<String>().replace('\n', " ")), "-".to_string()),
                Ok(Ok((cr, out))) => match cr {
                    CompileResult::CacheMiss(_, dt, _, fut) => { let _ = fut.await; (format!("CacheMiss ok={}", out.status.success()), format!("{:?}", dt)) }
                    CompileResult::CompileFailed(dt, _) => (format!("CompileFailed code={:?}", out.status.code()), format!("{:?}", dt)),
                    other => (format!("{:?}", other), "-".to_string()),
                },
            }
        });
        let ran = std::fs::read_to_string(&log).map(|s| s.lines().count()).unwrap_or(0);
        let file = match std::fs::read(&obj) { Ok(b) if b == b"REMOTE-OBJ" => "REMOTE", Ok(b) if b.starts_with(b"\x7fELF") => "ELF", Ok(_) => "OTHER", Err(_) => "absent" };
        let name = format!("{:?}", fault).replace('(', "").replace(')', "");
        let line = format!("{}\t{}\t{}\t{}\t{}", name, res.0, res.1, file, ran);
        writeln!(tr, "{}", line).unwrap(); if samples.len() < 3 { samples.push(line.clone()); }
        // ---- monitor: success only with a complete output; a failed distributed job leaves no partial file
        if res.0.starts_with("CacheMiss ok=true") && !(file == "REMOTE" || file == "ELF") { fails.push(fail_json("success_without_output", &format!("{}: reported success but the object file is {}", name, file), &[line.clone()], "")); }
        if file == "OTHER" { fails.push(fail_json("partial_output_left", &format!("{}: a foreign/partial object file was left behind", name), &[line.clone()], "")); }
        if res.0 == "PANIC" { fails.push(fail_json("panic", &name, &[line.clone()], "")); }
        // ---- monitor (statement of C13): a 4xx answer or a too-small local toolchain cache is an sccache error; every other failure falls back
        let reported = name.ends_with("Http") || name.ends_with("TooLarge");
        if reported && !res.0.starts_with("Err(") { fails.push(fail_json("rejected_request_not_reported", &format!("{}: must be reported as an sccache error but the result is {} (object {}, local compiler ran {}x)", name, res.0, file, ran), &[line.clone()], "")); }
        if !reported && name != "None" && !name.starts_with("RunExit") && !(res.0 == "CacheMiss ok=true" && file == "ELF" && ran == 1) { fails.push(fail_json("no_fallback", &format!("{}: a failed distributed job must fall back to the local compiler but the result is {} (object {}, local compiler ran {}x)", name, res.0, file, ran), &[line.clone()], "")); }
        if let Fault::RunExit(c) = fault { if res.0 != format!("CompileFailed code=Some({})", c) { fails.push(fail_json("remote_exit_status_lost", &format!("remote compiler exited with {} but the result is {}", c, res.0), &[line.clone()], "")); } }
    }
    std::fs::write(&a[2], format!("{{\"cases\":{},\"monitor_failures\":[{}],\"samples\":[{}]}}", n, fails.join(","), samples.iter().map(|s| jstr(s)).collect::<Vec<_>>().join(","))).unwrap();
}
