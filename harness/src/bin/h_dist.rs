// Probe (design round): the real `dist_or_local_compile` (through `get_cached_or_compile`) against a scripted
// `dist::Client` failing at each stage with each error class (C13). One line per case:
//   <stage>.<fault>\t<result class>\t<dist type>\t<output file: REMOTE | ELF | absent>\t<compiler ran locally: 0/1>
//! C13: the real `dist_or_local_compile` (through `get_cached_or_compile`) against a scripted `dist::Client` that fails
//! at each stage with each error class, and succeeds remotely with several exit codes — for `modeld dist`
//! (`DistM.distDecide`, exit-status mapping). Monitor: never success without correct outputs; no partial output left.
//! usage: h_dist <trace_out> <summary_out>
use verif_harness::*;
use sccache::dist::{self, AllocJobResult, JobAlloc, JobComplete, JobId, PathTransformer, ProcessOutput, RunJobResult, ServerId, SubmitToolchainResult, Toolchain};
use sccache::verif::*;
use std::ffi::OsString;
use std::io::Write;
use std::path::{Path, PathBuf};
use std::sync::Arc;
use std::time::Duration;

#[derive(Clone, Copy, Debug, PartialEq)]
enum Fault { RunExit(i32), SubmitHttp, SubmitTooLarge, AllocTooLarge, RunTooLarge, None, PutOther, PutHttp, PutTooLarge, AllocFail, AllocErr, AllocHttp, SubmitNotFound, SubmitCannotCache, SubmitErr, RunErr, RunHttp, RunNotFound, RunExit1, OutUnwritable, SecondOutUnwritable }

struct FakeDist { fault: Fault, extra_out: Option<String> }
fn http() -> anyhow::Error { sccache::errors::HttpClientError("403 scripted".into()).into() }
fn od(bytes: &[u8]) -> dist::OutputData {
    let mut e = flate2::write::ZlibEncoder::new(vec![], flate2::Compression::fast()); e.write_all(bytes).unwrap();
    bincode::deserialize(&bincode::serialize(&(e.finish().unwrap(), bytes.len() as u64)).unwrap()).unwrap()
}
#[async_trait::async_trait]
impl dist::Client for FakeDist {
    async fn do_alloc_job(&self, _tc: Toolchain) -> sccache::errors::Result<AllocJobResult> {
        match self.fault {
            Fault::AllocFail => Ok(AllocJobResult::Fail { msg: "no capacity".into() }),
            Fault::AllocErr => Err(anyhow::anyhow!("scheduler unreachable")),
            Fault::AllocHttp => Err(http()),
            Fault::AllocTooLarge => Err(sccache::lru_disk_cache::Error::FileTooLarge.into()),
            _ => Ok(AllocJobResult::Success { job_alloc: JobAlloc { auth: "a".into(), job_id: JobId(7), server_id: ServerId::new("127.0.0.1:1".parse().unwrap()) }, need_toolchain: true }),
        }
    }
    async fn do_get_status(&self) -> sccache::errors::Result<dist::SchedulerStatusResult> { Err(anyhow::anyhow!("unused")) }
    async fn do_submit_toolchain(&self, _j: JobAlloc, _tc: Toolchain) -> sccache::errors::Result<SubmitToolchainResult> {
        match self.fault { Fault::SubmitNotFound => Ok(SubmitToolchainResult::JobNotFound), Fault::SubmitCannotCache => Ok(SubmitToolchainResult::CannotCache),
                           Fault::SubmitErr => Err(anyhow::anyhow!("connection reset")), Fault::SubmitHttp => Err(http()), Fault::SubmitTooLarge => Err(sccache::lru_disk_cache::Error::FileTooLarge.into()), _ => Ok(SubmitToolchainResult::Success) }
    }
    async fn do_run_job(&self, _j: JobAlloc, _c: dist::CompileCommand, outputs: Vec<String>, _i: Box<dyn dist::pkg::InputsPackager>) -> sccache::errors::Result<(RunJobResult, PathTransformer)> {
        match self.fault {
            Fault::RunErr => Err(anyhow::anyhow!("server died")), Fault::RunHttp => Err(http()), Fault::RunTooLarge => Err(sccache::lru_disk_cache::Error::FileTooLarge.into()), Fault::RunNotFound => Ok((RunJobResult::JobNotFound, PathTransformer::new())),
            f => {
                use std::os::unix::process::ExitStatusExt;
                let code = if let Fault::RunExit(c) = f { c } else { 0 };
                let output = ProcessOutput::try_from(std::process::Output { status: std::process::ExitStatus::from_raw(code << 8), stdout: vec![], stderr: b"remote stderr\n".to_vec() }).unwrap();
                let mut outs: Vec<(String, dist::OutputData)> = if code == 0 { outputs.iter().map(|p| (p.clone(), od(b"REMOTE-OBJ"))).collect() } else { vec![] };
                if f == Fault::OutUnwritable { outs = vec![("/nonexistent-dir/x.o".to_string(), od(b"X"))]; }
                if f == Fault::SecondOutUnwritable { outs.push(("/nonexistent-dir/y.o".to_string(), od(b"Y"))); }
                if let Some(e) = &self.extra_out { let _ = e; }
                Ok((RunJobResult::Complete(JobComplete { output, outputs: outs }), PathTransformer::new()))
            }
        }
    }
    async fn put_toolchain(&self, _p: PathBuf, _k: String, _t: Box<dyn dist::pkg::ToolchainPackager>) -> sccache::errors::Result<(Toolchain, Option<(String, PathBuf)>)> {
        match self.fault { Fault::PutOther => Err(anyhow::anyhow!("cannot package")), Fault::PutHttp => Err(http()),
                           Fault::PutTooLarge => Err(sccache::lru_disk_cache::Error::FileTooLarge.into()), _ => Ok((Toolchain { archive_id: "tc".into() }, None)) }
    }
    fn rewrite_includes_only(&self) -> bool { false }
    fn get_custom_toolchain(&self, _exe: &Path) -> Option<PathBuf> { None }
}

struct NullStorage;
#[async_trait::async_trait]
impl Storage for NullStorage {
    async fn get(&self, _k: &str) -> sccache::errors::Result<Cache> { Ok(Cache::Miss) }
    async fn put(&self, _k: &str, _e: CacheWrite) -> sccache::errors::Result<Duration> { Ok(Duration::from_secs(0)) }
    fn location(&self) -> String { "null".into() }
    async fn current_size(&self) -> sccache::errors::Result<Option<u64>> { Ok(None) }
    async fn max_size(&self) -> sccache::errors::Result<Option<u64>> { Ok(None) }
}

/// phase 2: a build server that records the translation unit it is handed and "compiles" it: a unit holding BROKEN_STMT
/// fails with exit 1, any other unit (an empty one too, as with a real compiler) yields an object derived from the unit
struct RecDist { units: std::sync::Mutex<Vec<Vec<u8>>>, src_name: String }
#[async_trait::async_trait]
impl dist::Client for RecDist {
    async fn do_alloc_job(&self, _tc: Toolchain) -> sccache::errors::Result<AllocJobResult> {
        Ok(AllocJobResult::Success { job_alloc: JobAlloc { auth: "a".into(), job_id: JobId(9), server_id: ServerId::new("127.0.0.1:1".parse().unwrap()) }, need_toolchain: false })
    }
    async fn do_get_status(&self) -> sccache::errors::Result<dist::SchedulerStatusResult> { Err(anyhow::anyhow!("unused")) }
    async fn do_submit_toolchain(&self, _j: JobAlloc, _tc: Toolchain) -> sccache::errors::Result<SubmitToolchainResult> { Ok(SubmitToolchainResult::Success) }
    async fn do_run_job(&self, _j: JobAlloc, _c: dist::CompileCommand, outputs: Vec<String>, i: Box<dyn dist::pkg::InputsPackager>) -> sccache::errors::Result<(RunJobResult, PathTransformer)> {
        use std::io::Read; use std::os::unix::process::ExitStatusExt;
        let mut inputs = vec![]; let pt = i.write_inputs(&mut inputs)?;
        let mut unit: Vec<u8> = b"<<no entry for the source in the inputs package>>".to_vec();
        let mut ar = tar::Archive::new(inputs.as_slice());
        for e in ar.entries()? { let mut e = e?; if e.path()?.ends_with(&self.src_name) { let mut d = vec![]; e.read_to_end(&mut d)?; unit = d; } }
        let broken = unit.windows(11).any(|w| w == b"BROKEN_STMT");
        self.units.lock().unwrap().push(unit.clone());
        let code = if broken { 1 } else { 0 };
        let output = ProcessOutput::try_from(std::process::Output { status: std::process::ExitStatus::from_raw(code << 8), stdout: vec![], stderr: if broken { b"s.c:2: error: BROKEN_STMT\n".to_vec() } else { vec![] } }).unwrap();
        let obj = format!("REMOTE-OBJ:{}", blake3::hash(&unit).to_hex());
        let outs = if broken { vec![] } else { outputs.iter().map(|p| (p.clone(), od(obj.as_bytes()))).collect() };
        Ok((RunJobResult::Complete(JobComplete { output, outputs: outs }), pt))
    }
    async fn put_toolchain(&self, _p: PathBuf, _k: String, _t: Box<dyn dist::pkg::ToolchainPackager>) -> sccache::errors::Result<(Toolchain, Option<(String, PathBuf)>)> { Ok((Toolchain { archive_id: "tc".into() }, None)) }
    fn rewrite_includes_only(&self) -> bool { false }
    fn get_custom_toolchain(&self, _exe: &Path) -> Option<PathBuf> { None }
}

fn main() {
    let a: Vec<String> = std::env::args().collect();
    let mut tr = std::io::BufWriter::new(std::fs::File::create(&a[1]).unwrap()); let mut fails: Vec<String> = vec![]; let mut samples: Vec<String> = vec![];
    let rt = tokio::runtime::Builder::new_multi_thread().enable_all().worker_threads(4).build().unwrap();
    let pool = rt.handle().clone();
    let tmp = tempfile::tempdir().unwrap();
    let cwd = tmp.path().join("w"); std::fs::create_dir_all(&cwd).unwrap();
    let log = tmp.path().join("cc.log");
    let wrapper = tmp.path().join("gcc");
    std::fs::write(&wrapper, format!("#!/bin/sh\ncase \" $* \" in *\" -E \"*) ;; *) echo run >> {} ;; esac\nexec /usr/bin/gcc \"$@\"\n", log.display())).unwrap();
    use std::os::unix::fs::PermissionsExt;
    std::fs::set_permissions(&wrapper, std::fs::Permissions::from_mode(0o755)).unwrap();
    let storage: Arc<dyn Storage> = Arc::new(NullStorage);
    let service = sccache::server::SccacheService::<ProcessCommandCreator>::mock_with_storage(storage.clone(), pool.clone());
    let jobserver = JobClient::new_num(2);
    let creator = <ProcessCommandCreator as CommandCreatorSync>::new(&jobserver);
    let env: Vec<(OsString, OsString)> = vec![("PATH".into(), "/usr/bin:/bin".into())];
    use Fault::*;
    let mut n = 0;
    for fault in [None, PutOther, PutHttp, PutTooLarge, AllocFail, AllocErr, AllocHttp, AllocTooLarge, SubmitNotFound, SubmitCannotCache, SubmitErr, SubmitHttp, SubmitTooLarge, RunErr, RunHttp, RunTooLarge, RunNotFound, RunExit(1), RunExit(2), RunExit(42), RunExit(127), RunExit(255), OutUnwritable, SecondOutUnwritable] {
        n += 1;
        let src = cwd.join(format!("t{}.c", n)); std::fs::write(&src, format!("int f{}(void){{return {};}}\n", n, n)).unwrap();
        let obj = cwd.join(format!("t{}.o", n));
        let args: Vec<OsString> = vec!["-c".into(), src.file_name().unwrap().into(), "-o".into(), obj.file_name().unwrap().into()];
        let _ = std::fs::remove_file(&log);
        let dc: Arc<dyn dist::Client> = Arc::new(FakeDist { fault, extra_out: Option::None });
        let res = rt.block_on(async {
            let (compiler, _) = get_compiler_info(creator.clone(), &wrapper, &cwd, &args, &env, &pool, Option::None).await.unwrap();
            let hasher = match compiler.parse_arguments(&args, &cwd, &env) { CompilerArguments::Ok(h) => h, _ => panic!("parse") };
            let fut = hasher.get_cached_or_compile(&service, Some(dc), creator.clone(), storage.clone(), args.clone(), cwd.clone(), env.clone(), CacheControl::Default, pool.clone());
            use futures::FutureExt;
            match std::panic::AssertUnwindSafe(fut).catch_unwind().await {
                Err(_) => ("PANIC".to_string(), "-".to_string()),
                Ok(Err(e)) => (format!("Err({})", format!("{:#}", e).chars().take(60).collect::<String>().replace('\n', " ")), "-".to_string()),
                Ok(Ok((cr, out))) => match cr {
                    CompileResult::CacheMiss(_, dt, _, fut) => { let _ = fut.await; (format!("CacheMiss ok={}", out.status.success()), format!("{:?}", dt)) }
                    CompileResult::CompileFailed(dt, _) => (format!("CompileFailed code={:?}", out.status.code()), format!("{:?}", dt)),
                    other => (format!("{:?}", other), "-".to_string()),
                },
            }
        });
        let ran = std::fs::read_to_string(&log).map(|s| s.lines().count()).unwrap_or(0);
        let file = match std::fs::read(&obj) { Ok(b) if b == b"REMOTE-OBJ" => "REMOTE", Ok(b) if b.starts_with(b"\x7fELF") => "ELF", Ok(_) => "OTHER", Err(_) => "absent" };
        let name = format!("{:?}", fault).replace('(', "").replace(')', "");
        let line = format!("{}\t{}\t{}\t{}\t{}", name, res.0, res.1, file, ran);
        writeln!(tr, "{}", line).unwrap(); if samples.len() < 3 { samples.push(line.clone()); }
        // ---- monitor: success only with a complete output; a failed distributed job leaves no partial file
        if res.0.starts_with("CacheMiss ok=true") && !(file == "REMOTE" || file == "ELF") { fails.push(fail_json("success_without_output", &format!("{}: reported success but the object file is {}", name, file), &[line.clone()], "")); }
        if file == "OTHER" { fails.push(fail_json("partial_output_left", &format!("{}: a foreign/partial object file was left behind", name), &[line.clone()], "")); }
        if res.0 == "PANIC" { fails.push(fail_json("panic", &name, &[line.clone()], "")); }
        // ---- monitor (statement of C13): a 4xx answer or a too-small local toolchain cache is an sccache error; every other failure falls back
        let reported = name.ends_with("Http") || name.ends_with("TooLarge");
        if reported && !res.0.starts_with("Err(") { fails.push(fail_json("rejected_request_not_reported", &format!("{}: must be reported as an sccache error but the result is {} (object {}, local compiler ran {}x)", name, res.0, file, ran), &[line.clone()], "")); }
        if !reported && name != "None" && !name.starts_with("RunExit") && !(res.0 == "CacheMiss ok=true" && file == "ELF" && ran == 1) { fails.push(fail_json("no_fallback", &format!("{}: a failed distributed job must fall back to the local compiler but the result is {} (object {}, local compiler ran {}x)", name, res.0, file, ran), &[line.clone()], "")); }
        if let Fault::RunExit(c) = fault { if res.0 != format!("CompileFailed code=Some({})", c) { fails.push(fail_json("remote_exit_status_lost", &format!("remote compiler exited with {} but the result is {}", c, res.0), &[line.clone()], "")); } }
    }
    // ---- phase 2: request histories against a real disk cache in preprocessor-cache mode; the build server must always be
    //      handed the preprocessed text of the *current* source and headers, and results must be those of the current inputs
    let mut hist_steps = 0u64;
    {
        let cache_dir = tmp.path().join("cache2");
        let storage2: Arc<dyn Storage> = Arc::new(DiskCache::new(&cache_dir, u64::MAX, &pool, sccache::config::PreprocessorCacheModeConfig::activated(), CacheMode::ReadWrite));
        let service2 = sccache::server::SccacheService::<ProcessCommandCreator>::mock_with_storage(storage2.clone(), pool.clone());
        let w2 = tmp.path().join("w2"); std::fs::create_dir_all(&w2).unwrap();
        let rec = Arc::new(RecDist { units: std::sync::Mutex::new(vec![]), src_name: "s.c".into() });
        let dc: Arc<dyn dist::Client> = rec.clone();
        let write_old = |name: &str, body: &str| { let p = w2.join(name); std::fs::write(&p, body).unwrap(); filetime::set_file_mtime(&p, filetime::FileTime::from_unix_time(1_600_000_000, 0)).unwrap(); };
        let args: Vec<OsString> = vec!["-c".into(), "s.c".into(), "-o".into(), "s.o".into()];
        let mut trace2: Vec<String> = vec![];
        #[derive(Clone, Copy, PartialEq, Debug)] enum Want { Fail, Ok }
        let script: Vec<(&str, Option<(&str, String)>, Want)> = vec![
            ("broken source, first request", Some(("s.c", "#include \"h.h\"\nint marker_src_1(void) { return HDR_1 BROKEN_STMT ; }\n".into())), Want::Fail),
            ("the same failing request again", Option::None, Want::Fail),
            ("source repaired", Some(("s.c", "#include \"h.h\"\nint marker_src_2(void) { return HDR_1; }\n".into())), Want::Ok),
            ("the same request again", Option::None, Want::Ok),
            ("result entries removed from the cache directory (preprocessor entries kept)", Option::None, Want::Ok),
            ("header edited", Some(("h.h", "#define HDR_1 7\n/* marker_hdr_2 */\nint marker_hdr_2;\n".into())), Want::Ok),
            ("the same request again", Option::None, Want::Ok),
            ("source broken again", Some(("s.c", "#include \"h.h\"\nint marker_src_3(void) { return HDR_1 BROKEN_STMT ; }\n".into())), Want::Fail),
            ("the same failing request again", Option::None, Want::Fail),
        ];
        write_old("h.h", "#define HDR_1 1\nint marker_hdr_1;\n");
        let (mut cur_src, mut cur_hdr) = (String::new(), "marker_hdr_1".to_string());
        for (si, (note, edit, want)) in script.iter().enumerate() {
            if let Some((f, body)) = edit {
                write_old(f, body);
                if *f == "s.c" { cur_src = format!("marker_src_{}", body.split("marker_src_").nth(1).unwrap().chars().next().unwrap()); } else { cur_hdr = "marker_hdr_2".into(); }
            }
            if si == 0 || edit.is_some() { std::thread::sleep(Duration::from_millis(1100)); }       // inputs must be older than the start of the compile for preprocessor-cache mode
            if note.starts_with("result entries removed") {
                for e in walk(&cache_dir) { if !e.strip_prefix(&cache_dir).unwrap().starts_with("preprocessor") { let _ = std::fs::remove_file(&e); } }
            }
            let _ = std::fs::remove_file(w2.join("s.o"));
            let n_before = rec.units.lock().unwrap().len();
            let res = rt.block_on(async {
                let (compiler, _) = get_compiler_info(creator.clone(), &wrapper, &w2, &args, &env, &pool, Option::None).await.unwrap();
                let hasher = match compiler.parse_arguments(&args, &w2, &env) { CompilerArguments::Ok(h) => h, _ => panic!("parse") };
                match hasher.get_cached_or_compile(&service2, Some(dc.clone()), creator.clone(), storage2.clone(), args.clone(), w2.clone(), env.clone(), CacheControl::Default, pool.clone()).await {
                    Err(e) => format!("Err({:#})", e).chars().take(80).collect::<String>(),
                    Ok((cr, out)) => match cr {
                        CompileResult::CacheMiss(_, _, _, fut) => { let _ = fut.await; format!("CacheMiss code={:?}", out.status.code()) }
                        CompileResult::CompileFailed(_, _) => format!("CompileFailed code={:?}", out.status.code()),
                        CompileResult::CacheHit(_) => format!("CacheHit code={:?}", out.status.code()),
                        other => format!("{:?}", other),
                    },
                }
            });
            hist_steps += 1;
            let units = rec.units.lock().unwrap(); let new_units: Vec<&Vec<u8>> = units[n_before..].iter().collect();
            let obj = std::fs::read(w2.join("s.o")).ok();
            let line = format!("{}: {} ; build server called {}x ; object {}", note, res, new_units.len(), match &obj { Option::None => "absent".to_string(), Some(b) => String::from_utf8_lossy(&b[..b.len().min(19)]).to_string() });
            trace2.push(line.clone());
            let has = |u: &Vec<u8>, m: &str| u.windows(m.len()).any(|w| w == m.as_bytes());
            for u in &new_units {
                if !has(u, &cur_src) || !has(u, &cur_hdr) { fails.push(fail_json("remote_unit_not_current_preprocessed_source", &format!("[{}] the build server was handed a unit of {} bytes that lacks the text of the current source/header ({} / {})", note, u.len(), cur_src, cur_hdr), &trace2, "")); }
            }
            match want {
                Want::Fail => if !(res == "CompileFailed code=Some(1)" && obj.is_none()) { fails.push(fail_json("dist_result_differs_from_local", &format!("[{}] a local compile of this source fails with status 1 and leaves no object; got {}, object {}", note, res, if obj.is_some() { "present" } else { "absent" }), &trace2, "")); },
                Want::Ok => {
                    let okres = res == "CacheMiss code=Some(0)" || res == "CacheHit code=Some(0)";
                    let fresh = new_units.last().map(|u| format!("REMOTE-OBJ:{}", blake3::hash(u).to_hex()).into_bytes());
                    let good_obj = match (&obj, &fresh) { (Some(o), Some(f)) => o == f, (Some(o), Option::None) => o.starts_with(b"REMOTE-OBJ:"), _ => false };
                    if !okres || !good_obj { fails.push(fail_json("dist_result_differs_from_local", &format!("[{}] expected success with the object of the current inputs; got {}, object {}", note, res, if good_obj { "ok" } else { "wrong/absent" }), &trace2, "")); }
                }
            }
        }
        samples.push(trace2.join(" | "));
    }
    std::fs::write(&a[2], format!("{{\"history_steps\":{},\"cases\":{},\"monitor_failures\":[{}],\"samples\":[{}]}}", hist_steps, n, fails.join(","), samples.iter().map(|s| jstr(s)).collect::<Vec<_>>().join(","))).unwrap();
}

fn walk(d: &Path) -> Vec<PathBuf> {
    let mut out = vec![];
    if let Ok(rd) = std::fs::read_dir(d) { for e in rd.flatten() { let p = e.path(); if p.is_dir() { out.extend(walk(&p)); } else { out.push(p); } } }
    out
}
