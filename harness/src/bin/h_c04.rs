//! C04: (a) `TimeMacroFinder` / chunked digest on generated texts x generated read splits vs `modeld finder`,
//! with the monitor "no split hides a macro, the digest does not depend on the split";
//! (b) the manifest check `PreprocessorCacheEntry::add_result` + `lookup_result_digest` on real files vs
//! `modeld manifest`, with the monitor "a hit implies every recorded header still has its recorded contents".
//!
//! usage: h_c04 finder <n> <trace_out> <summary_out>
//!        h_c04 manifest <n> <trace_out> <summary_out>
//!        h_c04 replay-finder <file>      (one line: hex chunks separated by spaces)
use sccache::verif::PreprocessorCacheEntry;
use sccache::config::PreprocessorCacheModeConfig;
use sccache::util::{Digest, TimeMacroFinder};
use std::collections::BTreeMap;
use std::io::{Read, Write};
use std::os::unix::fs::MetadataExt;
use std::time::{Duration, SystemTime};
use verif_harness::*;

const PATS: [&[u8]; 3] = [b"__DATE__", b"__TIME__", b"__TIMESTAMP__"];
fn contains(h: &[u8], n: &[u8]) -> bool { h.windows(n.len()).any(|w| w == n) }

struct Chunked { data: Vec<u8>, pos: usize, sizes: Vec<usize>, i: usize }
impl Read for Chunked {
    fn read(&mut self, buf: &mut [u8]) -> std::io::Result<usize> {
        if self.pos >= self.data.len() { return Ok(0); }
        let want = if self.i < self.sizes.len() { self.sizes[self.i] } else { self.data.len() - self.pos };
        self.i += 1;
        let n = want.min(buf.len()).min(self.data.len() - self.pos);
        buf[..n].copy_from_slice(&self.data[self.pos..self.pos + n]); self.pos += n; Ok(n)
    }
}

fn gen_text(rng: &mut Rng) -> Vec<u8> {
    let frags: [&[u8]; 16] = [b"__DATE__", b"__TIME__", b"__TIMESTAMP__", b"_", b"__", b"__TI", b"ME__", b"__TIMEST", b"AMP__", b"__DA", b"TE__", b"x", b"int a;\n", b"TIME", b"_TIME_", b"                "];
    let n = rng.below(9); let mut v = vec![];
    for _ in 0..n { let f: &[u8] = frags[rng.below(16) as usize]; v.extend_from_slice(f); if rng.chance(1, 4) { let k = rng.below(30); v.extend(std::iter::repeat(b'.').take(k as usize)); } }
    v
}
fn gen_split(rng: &mut Rng, len: usize) -> Vec<usize> {
    let mut out = vec![]; let mut left = len;
    while left > 0 {
        let s = match rng.below(10) { 0..=2 => 1 + rng.below(3), 3..=5 => 11 + rng.below(5), 6 => 13, 7 => 26, 8 => 14 + rng.below(40), _ => 1 + rng.below(12) } as usize;
        let s = s.min(left); out.push(s); left -= s;
    }
    out
}

fn finder(n: u64, trace: &str, summary: &str) {
    let mut rng = Rng::from_env();
    let mut tr = std::io::BufWriter::new(std::fs::File::create(trace).unwrap());
    let mut fails: Vec<String> = vec![]; let mut samples = vec![];
    let (mut with_macro, mut split_inside, mut false_pos, mut short_mid) = (0u64, 0u64, 0u64, 0u64);
    let mut flagsets: BTreeMap<String, u64> = BTreeMap::new(); let mut distinct = std::collections::BTreeSet::new();
    for _ in 0..n {
        let text = gen_text(&mut rng); let sizes = gen_split(&mut rng, text.len());
        let mut chunks: Vec<&[u8]> = vec![]; let mut p = 0; for s in &sizes { chunks.push(&text[p..p + s]); p += s; }
        // direct feeding
        let mut f = TimeMacroFinder::new();
        for c in &chunks { f.find_time_macros(c); }
        let got = [f.found_date(), f.found_time(), f.found_timestamp()];
        // through the real chunked digest
        let (dig, f2) = Digest::reader_sync_time_macros(Chunked { data: text.clone(), pos: 0, sizes: sizes.clone(), i: 0 }).unwrap();
        let whole = Digest::reader_sync(&text[..]).unwrap();
        let line = chunks.iter().map(|c| hex(c)).collect::<Vec<_>>().join(" ");
        writeln!(tr, "{} | {} {} {}", line, got[0], got[1], got[2]).unwrap();
        let truth: Vec<bool> = PATS.iter().map(|p| contains(&text, p)).collect();
        if truth.iter().any(|x| *x) { with_macro += 1; }
        if distinct.insert(line.clone()) && truth.iter().any(|x| *x) && sizes.len() > 1 { split_inside += 1; }
        if sizes.iter().take(sizes.len().saturating_sub(1)).any(|s| *s < 13) { short_mid += 1; }
        *flagsets.entry(format!("{}{}{}", got[0] as u8, got[1] as u8, got[2] as u8)).or_insert(0) += 1;
        if samples.len() < 3 && truth[2] && sizes.len() > 2 { samples.push(format!("{} | {} {} {}", line, got[0], got[1], got[2])); }
        for i in 0..3 {
            if truth[i] && !got[i] { fails.push(fail_json("macro_missed", &format!("{} is in the text but the scan over this split did not find it", String::from_utf8_lossy(PATS[i])), &[line.clone()], "")); }
            if !truth[i] && got[i] { false_pos += 1; }
        }
        if dig != whole { fails.push(fail_json("digest_depends_on_split", "reader_sync_time_macros over this split differs from the digest of the whole", &[line.clone()], "")); }
        if [f2.found_date(), f2.found_time(), f2.found_timestamp()] != got { fails.push(fail_json("reader_flags_differ", "flags through reader_sync_time_macros differ from direct feeding", &[line.clone()], "")); }
    }
    std::fs::write(summary, format!("{{\"cases\":{},\"texts_with_macro\":{},\"distinct_nontrivial\":{},\"false_positives\":{},\"cases_with_short_middle_read\":{},\"flag_histogram\":{{{}}},\"monitor_failures\":[{}],\"samples\":[{}]}}",
        n, with_macro, split_inside, false_pos, short_mid, flagsets.iter().map(|(k, v)| format!("\"{}\":{}", k, v)).collect::<Vec<_>>().join(","), fails.join(","), samples.iter().map(|s| jstr(s)).collect::<Vec<_>>().join(","))).unwrap();
}

// ---- mirror of the serialized preprocessor cache entry (bincode), to read what `add_result` recorded
#[derive(serde::Deserialize)] struct TS { seconds: i64, nanoseconds: u32 }
#[derive(serde::Deserialize)] struct IncE { path: std::ffi::OsString, digest: String, file_size: u64, mtime: Option<TS>, ctime: Option<TS> }
#[derive(serde::Deserialize)] struct EntryM { #[allow(dead_code)] number_of_entries: usize, results: BTreeMap<String, Vec<IncE>> }
fn ns(t: &TS) -> i128 { t.seconds as i128 * 1_000_000_000 + t.nanoseconds as i128 }
fn sys_ns(t: SystemTime) -> i128 { t.duration_since(SystemTime::UNIX_EPOCH).unwrap().as_nanos() as i128 }

fn manifest(n: u64, trace: &str, summary: &str) {
    let mut rng = Rng::from_env();
    let mut tr = std::io::BufWriter::new(std::fs::File::create(trace).unwrap());
    let dir = tempfile::tempdir().unwrap();
    let bodies: [&[u8]; 8] = [b"#define A 1\n", b"#define A 2\n", b"#define B 33\n", b"const char*d=__DATE__;\n", b"const char*e=__DATE__;\n", b"const char*t=__TIME__;\n", b"const char*s=__TIMESTAMP__;\n", b"int long_header_body;\n"];
    let mut fails = vec![]; let mut samples = vec![]; let (mut hits, mut misses, mut stale_known, mut recorded_times) = (0u64, 0u64, 0u64, 0u64);
    let mut muts: BTreeMap<String, u64> = BTreeMap::new(); let mut distinct = std::collections::BTreeSet::new(); let mut nontrivial = 0u64;
    for case in 0..n {
        let cfg = PreprocessorCacheModeConfig { use_preprocessor_cache_mode: true, file_stat_matches: rng.chance(1, 2), use_ctime_for_stat: rng.chance(3, 4), ignore_time_macros: rng.chance(1, 3), ..Default::default() };
        let nh = 1 + rng.below(3) as usize;
        let mut paths = vec![]; let mut orig: Vec<Vec<u8>> = vec![];
        for i in 0..nh {
            let p = dir.path().join(format!("c{}_h{}.h", case, i));
            let b = bodies[rng.below(8) as usize].to_vec();
            std::fs::write(&p, &b).unwrap();
            // mtime in the past for most headers
            if rng.chance(3, 4) { filetime::set_file_mtime(&p, filetime::FileTime::from_system_time(SystemTime::now() - Duration::from_secs(100 + rng.below(1000)))).unwrap(); }
            paths.push(p); orig.push(b);
        }
        // compile start: after every file's ctime (times get recorded) or before (not recorded)
        let t0 = if rng.chance(2, 3) { SystemTime::now() + Duration::from_secs(5) } else { SystemTime::now() - Duration::from_secs(5000) };
        let mut e = PreprocessorCacheEntry::new();
        let incs: Vec<(String, std::path::PathBuf)> = paths.iter().zip(&orig).map(|(p, b)| (Digest::reader_sync(&b[..]).unwrap(), p.clone())).collect();
        e.add_result(t0, "resultkey", incs);
        let mut buf = vec![]; e.serialize_to(&mut buf).unwrap();
        let m: EntryM = bincode::deserialize(&buf[1..]).unwrap();
        let rec = &m.results["resultkey"];
        let mut rec_s = vec![];
        for (i, r) in rec.iter().enumerate() {
            assert_eq!(r.path, paths[i].as_os_str());
            let rc = r.mtime.is_some() as u8; if rc == 1 { recorded_times += 1; }
            rec_s.push(format!("{}:{}:{}:{}:{}:{}", i, r.digest, r.file_size, if r.mtime.is_some() && r.ctime.is_some() { 1 } else { 0 }, r.mtime.as_ref().map(ns).unwrap_or(0), r.ctime.as_ref().map(ns).unwrap_or(0)));
            if r.mtime.is_some() != r.ctime.is_some() { fails.push(fail_json("half_recorded_times", "mtime and ctime are not recorded together", &[], "")); }
        }
        // ---- mutate
        let mut mutlog = vec![];
        for i in 0..nh {
            let p = &paths[i];
            let old_m = filetime::FileTime::from_last_modification_time(&std::fs::metadata(p).unwrap());
            let k = match rng.below(9) { 0..=2 => "none", 3 => "same_size_edit", 4 => "size_edit", 5 => "same_size_edit_mtime_restored", 6 => "touch", 7 => "delete", _ => "rewrite_same" };
            match k {
                "same_size_edit" | "same_size_edit_mtime_restored" => { let mut b = orig[i].clone(); let j = b.len() / 2; b[j] = if b[j] == b'Z' { b'Y' } else { b'Z' }; std::fs::write(p, &b).unwrap(); if k.ends_with("restored") { filetime::set_file_mtime(p, old_m).unwrap(); } }
                "size_edit" => { let mut b = orig[i].clone(); b.extend_from_slice(b"//x\n"); std::fs::write(p, &b).unwrap(); }
                "touch" => { filetime::set_file_mtime(p, filetime::FileTime::now()).unwrap(); }
                "delete" => { std::fs::remove_file(p).unwrap(); }
                "rewrite_same" => { std::fs::write(p, &orig[i]).unwrap(); }
                _ => {} }
            *muts.entry(k.to_string()).or_insert(0) += 1; mutlog.push(k);
        }
        // ---- current state
        let mut cur_s = vec![]; let mut changed = vec![];
        for i in 0..nh {
            match std::fs::read(&paths[i]) {
                Ok(b) => { let md = std::fs::symlink_metadata(&paths[i]).unwrap();
                    cur_s.push(format!("{}:{}:{}:{}:{}:{}:{}:{}", i, Digest::reader_sync(&b[..]).unwrap(), md.len(), sys_ns(md.modified().unwrap()), md.ctime() as i128 * 1_000_000_000 + md.ctime_nsec() as i128,
                        contains(&b, PATS[0]) as u8, contains(&b, PATS[1]) as u8, contains(&b, PATS[2]) as u8));
                    if b != orig[i] { changed.push((i, contains(&b, PATS[0]) || contains(&b, PATS[2]) || contains(&b, PATS[1]))); } }
                Err(_) => changed.push((i, false)),
            }
        }
        let mut updated = false;
        let hit = e.lookup_result_digest(cfg, &mut updated).is_some();
        if hit { hits += 1; } else { misses += 1; }
        let line = format!("{} {} {} | {} | {} | {}", cfg.file_stat_matches as u8, cfg.use_ctime_for_stat as u8, cfg.ignore_time_macros as u8, rec_s.join(" "), if cur_s.is_empty() { "-".to_string() } else { cur_s.join(" ") }, hit as u8);
        writeln!(tr, "{}", line).unwrap();
        if distinct.insert(format!("{:?}{:?}{}{}{}", mutlog, orig, cfg.file_stat_matches, cfg.ignore_time_macros, hit)) && !changed.is_empty() { nontrivial += 1; }
        if samples.len() < 3 && !changed.is_empty() { samples.push(format!("mutations {:?}: {}", mutlog, line)); }
        // ---- monitor: a hit must mean that no recorded header changed
        if hit && !changed.is_empty() {
            let time_macro_header = changed.iter().all(|c| c.1) && !cfg.ignore_time_macros;
            if time_macro_header { stale_known += 1; }
            fails.push(fail_json("stale_manifest_hit", &format!("lookup hit although header(s) {:?} changed (mutations {:?}; stat={} ctime={} ignore_time_macros={}){}", changed.iter().map(|c| c.0).collect::<Vec<_>>(), mutlog,
                cfg.file_stat_matches, cfg.use_ctime_for_stat, cfg.ignore_time_macros, if time_macro_header { " [every changed header holds time-macro text, default handling]" } else { "" }), &[line.clone()], ""));
        }
        for p in &paths { let _ = std::fs::remove_file(p); }
    }
    std::fs::write(summary, format!("{{\"cases\":{},\"hits\":{},\"misses\":{},\"headers_with_recorded_times\":{},\"distinct_nontrivial\":{},\"mutation_histogram\":{{{}}},\"monitor_failures\":[{}],\"samples\":[{}]}}",
        n, hits, misses, recorded_times, nontrivial, muts.iter().map(|(k, v)| format!("\"{}\":{}", k, v)).collect::<Vec<_>>().join(","), fails.join(","), samples.iter().map(|s| jstr(s)).collect::<Vec<_>>().join(","))).unwrap();
    let _ = stale_known;
}

fn main() {
    let a: Vec<String> = std::env::args().collect();
    match a.get(1).map(|s| s.as_str()) {
        Some("finder") => finder(a[2].parse().unwrap(), &a[3], &a[4]),
        Some("manifest") => manifest(a[2].parse().unwrap(), &a[3], &a[4]),
        Some("replay-finder") => {
            let s = std::fs::read_to_string(&a[2]).unwrap();
            let l = s.lines().find(|l| !l.starts_with('#') && !l.trim().is_empty()).unwrap();
            let chunks: Vec<Vec<u8>> = l.split('|').next().unwrap().split_whitespace().map(unhex).collect();
            let text: Vec<u8> = chunks.concat();
            let mut f = TimeMacroFinder::new(); for c in &chunks { f.find_time_macros(c); }
            let got = [f.found_date(), f.found_time(), f.found_timestamp()];
            let truth: Vec<bool> = PATS.iter().map(|p| contains(&text, p)).collect();
            println!("text {:?}\nsplit sizes {:?}\nfound (date,time,timestamp) = {:?}; present = {:?}", String::from_utf8_lossy(&text), chunks.iter().map(|c| c.len()).collect::<Vec<_>>(), got, truth);
            std::process::exit(if (0..3).any(|i| truth[i] && !got[i]) { 1 } else { 0 });
        }
        _ => { eprintln!("usage"); std::process::exit(2); }
    }
}
