// Probe (design round): the byte framing that `HashToDigest` receives from std's `Hash` impls for the types used in
// `RustHasher::generate_hash_key` (OsString arguments/env, `String` version, `PathBuf` cwd).
//! C05 (framing part of the rustc key): std `Hash` for OsString / String / PathBuf through a `write`-only Hasher, as
//! `HashToDigest` sees it, for `modeld framing` (`RustKeyM.encArg` / `encStr` / `encPath`). usage: h_framing <n> <trace_out>
use std::cell::Cell;
use std::io::Write;
use std::ffi::OsString;
use std::hash::{Hash, Hasher};
use std::os::unix::ffi::OsStringExt;
use std::path::PathBuf;
struct Rec(Vec<u8>);
impl Hasher for Rec { fn write(&mut self, b: &[u8]) { self.0.extend_from_slice(b) } fn finish(&self) -> u64 { 0 } }  // like HashToDigest: only `write`
fn hx(b: &[u8]) -> String { if b.is_empty() { "e".into() } else { b.iter().map(|x| format!("{:02x}", x)).collect() } }
fn main() {
    let a: Vec<String> = std::env::args().collect(); let n: u64 = a[1].parse().unwrap();
    let mut tr = std::io::BufWriter::new(std::fs::File::create(&a[2]).unwrap());
    let seed = Cell::new(0x1234567887654321u64 ^ verif_harness::env_u64("VERIF_SEED", 1).wrapping_mul(0x9E3779B97F4A7C15));
    let rnd = |n: u64| -> u64 { let mut x = seed.get(); x ^= x << 13; x ^= x >> 7; x ^= x << 17; seed.set(x); x % n };
    for _ in 0..n {
        let len = rnd(14) as usize;
        let p: Vec<u8> = (0..len).map(|_| b"ab./"[rnd(4) as usize]).collect();
        let mut r = Rec(vec![]); PathBuf::from(OsString::from_vec(p.clone())).hash(&mut r);
        writeln!(tr, "path\t{}\t{}", hx(&p), hx(&r.0)).unwrap();
        let o: Vec<u8> = (0..rnd(10)).map(|_| rnd(256) as u8).collect();
        let mut r = Rec(vec![]); OsString::from_vec(o.clone()).hash(&mut r);
        writeln!(tr, "os\t{}\t{}", hx(&o), hx(&r.0)).unwrap();
        let s: String = (0..rnd(10)).map(|_| ['r', 'u', 's', 't', 'c', ' ', '1', '.', 'é'][rnd(9) as usize]).collect();
        let mut r = Rec(vec![]); s.hash(&mut r);
        writeln!(tr, "str\t{}\t{}", hx(s.as_bytes()), hx(&r.0)).unwrap();
    }
}
