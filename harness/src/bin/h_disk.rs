//! C06 on the real `cache::disk::DiskCache` (the layer the server uses: `put` = lock{prepare_add}; write; lock{commit}, `get`,
//! lazy start-up scan, the preprocessor sub-cache), with real process deaths:
//!   h_disk child <dir> <seed>    — stores entries for ever from several threads (each entry's object says which key and which
//!                                   version it is, in every line) and looks entries up in between; the parent kills it with SIGKILL
//!   h_disk run <rounds> <summary_out>
//!        each round: start a child, let it run 20..300 ms, SIGKILL it, then open the directory with a **new** `DiskCache` (what a
//!        restarted server does) and check the statement: every key is a miss or a *complete* entry stored under *that* key; no
//!        temporary file is served or survives the first access; the preprocessor sub-cache likewise; the directory is usable
//!        (a store and a lookup work). Rounds share one directory, so later rounds start from what earlier crashes left.
use sccache::verif::*;
use std::io::{Cursor, Read, Write};
use std::sync::Arc;
use verif_harness::*;

const NKEYS: u64 = 6;
fn key(i: u64) -> String { format!("{:064x}", 0xabc0_0000u64 + i * 0x1111) }
/// every line names key, version, announced line count and its own index, followed by 4 kB of incompressible filler (so that
/// compressing and writing the entry takes long enough for a kill to land inside it)
fn body(k: u64, v: u64, lines: u64) -> Vec<u8> {
    let mut x = (k + 1).wrapping_mul(0x9E3779B97F4A7C15) ^ v ^ 1; let mut s: Vec<u8> = Vec::with_capacity(lines as usize * 4200);
    for i in 0..lines {
        s.extend_from_slice(format!("{}:{}:{}:{}:", k, v, lines, i).as_bytes());
        for _ in 0..512 { x ^= x << 13; x ^= x >> 7; x ^= x << 17; for b in x.to_le_bytes() { s.push(if b == b'\n' { 0x0b } else { b }); } }
        s.push(b'\n');
    }
    s
}
/// (key index, version, lines seen, lines announced) or None when the bytes are not the lines of one store
fn decode(b: &[u8]) -> Option<(u64, u64, u64, u64)> {
    if b.is_empty() || *b.last().unwrap() != b'\n' { return None; }
    let mut hdr = None; let mut n = 0u64;
    for l in b[..b.len() - 1].split(|c| *c == b'\n') {
        let mut it = l.splitn(5, |c| *c == b':'); let mut p = [0u64; 4];
        for q in p.iter_mut() { *q = std::str::from_utf8(it.next()?).ok()?.parse().ok()?; }
        if it.next().map(|f| f.len()) != Some(4096) || p[3] != n { return None; }
        match hdr { None => hdr = Some((p[0], p[1], p[2])), Some(h) => if h != (p[0], p[1], p[2]) { return None; } } n += 1; }
    hdr.map(|(k, v, t)| (k, v, n, t))
}

fn open(dir: &std::path::Path, rt: &tokio::runtime::Runtime) -> DiskCache {
    DiskCache::new(dir, 1 << 30, rt.handle(), sccache::config::PreprocessorCacheModeConfig::activated(), CacheMode::ReadWrite)
}

fn main() {
    let a: Vec<String> = std::env::args().collect();
    match a.get(1).map(|s| s.as_str()) {
        Some("child") => {
            let dir = std::path::PathBuf::from(&a[2]); let seed: u64 = a[3].parse().unwrap();
            // optional I/O fault: with a file-size limit the body write of a larger entry fails part-way (EFBIG, SIGXFSZ ignored) —
            // what ENOSPC / EDQUOT / EIO do to a store
            if let Some(limit) = a.get(4).and_then(|x| x.parse::<u64>().ok()) { unsafe {
                libc::signal(libc::SIGXFSZ, libc::SIG_IGN);
                let r = libc::rlimit { rlim_cur: limit, rlim_max: limit }; libc::setrlimit(libc::RLIMIT_FSIZE, &r); } }
            let rt = tokio::runtime::Builder::new_multi_thread().worker_threads(4).enable_all().build().unwrap();
            let dc = Arc::new(open(&dir, &rt));
            let mut hs = vec![];
            for t in 0..4u64 {
                let dc = dc.clone(); let h = rt.handle().clone();
                hs.push(std::thread::spawn(move || { let mut rng = Rng::new(seed * 31 + t); let mut v = seed * 1000 + t * 100;
                    loop {
                        let k = rng.below(NKEYS); v += 1;
                        if rng.chance(3, 4) {
                            // an incompressible-ish body of 0.2 .. 3 MB so that the write takes a while
                            let lines = 500 + rng.below(5_000);      // 2 .. 22 MB
                            let mut w = CacheWrite::new(); w.put_object("obj", &mut Cursor::new(body(k, v, lines)), Some(0o644)).unwrap(); w.put_stdout(format!("{}:{}", k, v).as_bytes()).unwrap();
                            let _ = h.block_on(dc.put(&key(k), w));
                        } else if rng.chance(1, 2) {
                            if let Ok(Cache::Hit(mut r)) = h.block_on(dc.get(&key(k))) { let mut o = vec![]; let _ = r.get_object("obj", &mut o); }
                        } else {
                            let e = PreprocessorCacheEntry::new();
                            let _ = h.block_on(dc.put_preprocessor_cache_entry(&key(k), e));
                        }
                    } }));
            }
            for h in hs { let _ = h.join(); }
        }
        Some("run") => {
            let rounds: u64 = a[2].parse().unwrap(); let mut rng = Rng::from_env();
            let tmp = tempfile::tempdir().unwrap(); let dir = tmp.path().join("cache");
            let rt = tokio::runtime::Builder::new_multi_thread().worker_threads(2).enable_all().build().unwrap();
            let exe = std::env::current_exe().unwrap();
            let mut fails: Vec<String> = vec![]; let (mut hits, mut misses, mut temps_seen, mut pp_seen) = (0u64, 0u64, 0u64, 0u64); let mut write_fault_rounds = 0u64; let mut samples = vec![];
            for r in 0..rounds {
                // every third round the storing process runs under a 3 MB file-size limit: larger bodies fail in the middle of their write
                let faulty = r % 3 == 2; if faulty { write_fault_rounds += 1; }
                let mut cmd = std::process::Command::new(&exe); cmd.arg("child").arg(&dir).arg(format!("{}", rng.next() % 100_000)); if faulty { cmd.arg("3000000"); }
                let mut child = cmd.stdout(std::process::Stdio::null()).stderr(std::process::Stdio::null()).spawn().unwrap();
                std::thread::sleep(std::time::Duration::from_millis(if faulty { 250 + rng.below(250) } else { 20 + rng.below(280) }));
                unsafe { libc::kill(child.id() as i32, libc::SIGKILL); } let _ = child.wait();
                let temps_before: Vec<String> = walkdir::WalkDir::new(&dir).into_iter().filter_map(|e| e.ok()).filter(|e| e.file_name().to_string_lossy().starts_with(".sccachetmp")).map(|e| e.path().display().to_string()).collect();
                temps_seen += temps_before.len() as u64;
                // ---- what a restarted server sees
                let dc = open(&dir, &rt); let mut line = format!("round {}: killed, {} temp file(s) left;", r, temps_before.len());
                for k in 0..NKEYS {
                    match rt.block_on(dc.get(&key(k))) {
                        Ok(Cache::Miss) => { misses += 1; line += &format!(" {}=miss", k); }
                        Ok(Cache::Hit(mut rd)) => { hits += 1; let mut o = vec![];
                            match rd.get_object("obj", &mut o) {
                                Err(e) => fails.push(fail_json("incomplete_entry_served", &format!("round {}: key {} is reported present after the crash but its object cannot be read: {:#}", r, k, e), &[line.clone()], "")),
                                Ok(_) => match decode(&o) {
                                    Some((ck, cv, n, t)) if ck == k && n == t => { line += &format!(" {}=v{}", k, cv);
                                        let so = String::from_utf8_lossy(&rd.get_stdout().unwrap_or_default()).to_string();
                                        if so != format!("{}:{}", ck, cv) { fails.push(fail_json("mixed_entry_served", &format!("round {}: key {}: object of store v{} with the stdout of {:?}", r, k, cv, so), &[line.clone()], "")); } }
                                    Some((ck, cv, n, t)) => fails.push(fail_json(if ck != k { "foreign_entry_served" } else { "partial_entry_served" }, &format!("round {}: lookup of key {} returned key {} v{} with {} of {} lines", r, k, ck, cv, n, t), &[line.clone()], "")),
                                    None => fails.push(fail_json("mixed_entry_served", &format!("round {}: key {}: {} bytes that are not the lines of one store", r, k, o.len()), &[line.clone()], "")),
                                } } }
                        Ok(_) => {}
                        Err(e) => fails.push(fail_json("lookup_failed_after_crash", &format!("round {}: key {}: {:#}", r, k, e), &[line.clone()], "")),
                    }
                    if let Ok(Some(mut f)) = rt.block_on(dc.get_preprocessor_cache_entry(&key(k))) { pp_seen += 1; let mut b = vec![]; let _ = f.read_to_end(&mut b);
                        if !b.is_empty() { if let Err(e) = PreprocessorCacheEntry::read(&b) { fails.push(fail_json("incomplete_preprocessor_entry_served", &format!("round {}: key {}: {} bytes: {:#}", r, k, b.len(), e), &[line.clone()], "")); } } }
                }
                let temps_after: Vec<String> = walkdir::WalkDir::new(&dir).into_iter().filter_map(|e| e.ok()).filter(|e| e.file_name().to_string_lossy().starts_with(".sccachetmp")).map(|e| e.path().display().to_string()).collect();
                if !temps_after.is_empty() { fails.push(fail_json("temp_survives_restart", &format!("round {}: {} temporary file(s) still there after the restarted cache was used: {:?}", r, temps_after.len(), &temps_after[..temps_after.len().min(2)]), &[line.clone()], "")); }
                // ---- and it is usable
                let mut w = CacheWrite::new(); w.put_object("obj", &mut Cursor::new(body(0, 999_999, 3)), None).unwrap(); w.put_stdout(b"0:999999").unwrap();
                if let Err(e) = rt.block_on(dc.put(&key(0), w)) { fails.push(fail_json("store_failed_after_crash", &format!("round {}: {:#}", r, e), &[line.clone()], "")); }
                if !matches!(rt.block_on(dc.get(&key(0))), Ok(Cache::Hit(_))) { fails.push(fail_json("store_not_visible_after_crash", &format!("round {}", r), &[line.clone()], "")); }
                if samples.len() < 3 { samples.push(line); }
            }
            let mut out = std::fs::File::create(&a[3]).unwrap();
            write!(out, "{{\"write_fault_rounds\":{},\"rounds\":{},\"lookups_hit\":{},\"lookups_miss\":{},\"temp_files_left_by_kills\":{},\"preprocessor_entries_read\":{},\"monitor_failures\":[{}],\"samples\":[{}]}}", write_fault_rounds, rounds, hits, misses, temps_seen, pp_seen, fails.join(","), samples.iter().map(|s| jstr(s)).collect::<Vec<_>>().join(",")).unwrap();
        }
        _ => { eprintln!("usage: h_disk run <rounds> <summary> | child <dir> <seed>"); std::process::exit(2); }
    }
}
