//! C05: the real rustc argument parser (`rust::parse_arguments` through hook H7) on generated rustc command lines, vs
//! `modeld rustargs` (`RArgsM.parseArguments` over the regenerated table).
//! Trace line: cwd (hex) \t argv (hex list) \t existing paths (hex list) \t rendered result of the real parser.
//! Monitor (the statement, on the implementation): moving `--extern` / `--cfg` / `-L` arguments around changes neither the
//! verdict nor the sorted externs / the multiset of arguments; every argument other than `--color` reaches the argument list.
//! usage: h_rustargs gen <n> <trace_out> <summary_out> | h_rustargs one <args…>
use std::ffi::OsString;
use std::io::Write;
use std::os::unix::ffi::{OsStrExt, OsStringExt};
use verif_harness::*;

fn parse(argv: &[Vec<u8>], cwd: &std::path::Path) -> String {
    let a: Vec<OsString> = argv.iter().map(|x| OsString::from_vec(x.clone())).collect();
    match std::panic::catch_unwind(|| sccache::verif::verif_rust_parse_arguments(&a, cwd)) { Ok(s) => s, Err(_) => "panic".into() }
}

fn b(s: &str) -> Vec<u8> { s.as_bytes().to_vec() }

/// one option in one of its spellings
fn spell(rng: &mut Rng, flag: &str, val: &[u8], out: &mut Vec<Vec<u8>>) {
    let long = flag.starts_with("--");
    match rng.below(if long { 2 } else { 2 }) {
        0 => { out.push(b(flag)); out.push(val.to_vec()); }
        _ => { let mut v = b(flag); if long { v.push(b'='); } v.extend_from_slice(val); out.push(v); }
    }
}

/// mostly the first (ordinary) alternatives; one time in six any of them, one time in forty a value with a byte that is not UTF-8
fn pick<'a>(rng: &mut Rng, usual: usize, all: &[&'a [u8]]) -> Vec<u8> {
    if rng.chance(1, 40) { return b"x\xffy".to_vec(); }
    if rng.chance(1, 6) { rng.pick(all).to_vec() } else { all[rng.below(usual as u64) as usize].to_vec() }
}

fn gen_argv(rng: &mut Rng) -> Vec<Vec<u8>> {
    let mut groups: Vec<Vec<Vec<u8>>> = vec![];
    let g = |rng: &mut Rng, flag: &str, val: &[u8]| { let mut o = vec![]; spell(rng, flag, val, &mut o); o };
    if rng.chance(29, 30) { let v = pick(rng, 2, &[b"foo", b"foo_bar", b""]); groups.push(g(rng, "--crate-name", &v)); }
    if rng.chance(29, 30) { groups.push(vec![pick(rng, 3, &[b"src/lib.rs", b"lib.rs", b"./a b.rs", b"\xffin.rs"])]); }
    if rng.chance(1, 40) { groups.push(vec![b("second.rs")]); }
    if rng.chance(29, 30) { let v = pick(rng, 5, &[b"lib", b"rlib", b"staticlib", b"rlib,staticlib", b"lib,rlib", b"bin", b"rlib,dylib", b"", b"cdylib", b"proc-macro"]); groups.push(g(rng, "--crate-type", &v)); }
    if rng.chance(1, 8) { groups.push(g(rng, "--crate-type", b"staticlib")); }
    if rng.chance(29, 30) { let v = pick(rng, 6, &[b"link", b"dep-info,metadata,link", b"dep-info,link", b"metadata", b"dep-info,metadata", b"link,link", b"dep-info", b"asm", b"link,llvm-ir", b"", b"obj"]); groups.push(g(rng, "--emit", &v)); }
    if rng.chance(1, 40) { groups.push(g(rng, "--emit", b"link")); }
    if rng.chance(29, 30) { let v = pick(rng, 3, &[b"/t/deps", b"out", b"../o", b"", b"\xfe"]); groups.push(g(rng, "--out-dir", &v)); }
    for _ in 0..rng.below(4) { let v = pick(rng, 7, &[b"opt-level=3", b"embed-bitcode=no", b"extra-filename=-abc", b"profile-use=p.prof", b"metadata=1f", b"debuginfo=2", b"extra-filename=", b"extra-filename", b"incremental=/x", b"incremental", b"save-temps", b"save-temps=yes", b"split-debuginfo=unpacked", b"profile-use", b"", b"=x", b"a=b=c"]);
        let f = *rng.pick(&["-C", "--codegen"]); groups.push(g(rng, f, &v)); }
    for _ in 0..rng.below(2) { let v = pick(rng, 6, &[b"profile", b"profile=y", b"profile=yes", b"profile=on", b"profile=no", b"unstable-options", b"profile="]); groups.push(g(rng, "-Z", &v)); }
    for _ in 0..rng.below(4) { let v = pick(rng, 8, &[b"dependency=/t/deps", b"dependency=deps", b"native=n", b"native=/abs/n", b"all=n2", b"crate=c", b"framework=f", b"n", b"=x", b"", b"native="]); groups.push(g(rng, "-L", &v)); }
    for _ in 0..rng.below(3) { let v = pick(rng, 5, &[b"static=z", b"dylib=y", b"z", b"static=y", b"framework=F", b"static=", b"static:+bundle=z", b"static=/abs"]); groups.push(g(rng, "-l", &v)); }
    for _ in 0..rng.below(4) { let v = pick(rng, 10, &[b"a=/t/deps/liba.rlib", b"b=/t/deps/libb.rlib", b"c=deps/libc.rlib", b"d=a/b", b"e=a.b", b"f=a//b", b"g=./x", b"h=../x", b"j=a=b", b"k=a", b"l=a/", b"i=", b"=p", b"noeq"]); groups.push(g(rng, "--extern", &v)); }
    for _ in 0..rng.below(3) { let v = pick(rng, 3, &[b"feature=\"a\"", b"feature=\"b\"", b"unix", b""]); groups.push(g(rng, "--cfg", &v)); }
    if rng.chance(1, 3) { let v = pick(rng, 4, &[b"x86_64-unknown-linux-gnu", b"t.json", b"dir/t.json", b"a.b", b".json", b"probe", b"dir/probe", b"t.json/", b"", b"json", b"\xff.json"]); groups.push(g(rng, "--target", &v)); }
    if rng.chance(1, 3) { let v = pick(rng, 3, &[b"always", b"never", b"auto", b"x", b""]); groups.push(g(rng, "--color", &v)); }
    if rng.chance(1, 8) { groups.push(g(rng, "--color", b"never")); }
    if rng.chance(1, 4) { let v = pick(rng, 2, &[b"diagnostic-rendered-ansi", b"artifacts"]); groups.push(g(rng, "--json", &v)); }
    for _ in 0..rng.below(3) {
        let (f, v): (&str, &[u8]) = *rng.pick(&[("--cap-lints", &b"allow"[..]), ("--error-format", b"json"), ("--check-cfg", b"cfg()"), ("--remap-path-prefix", b"/a=/b"), ("-A", b"unused"), ("-W", b"x"), ("-D", b"warnings"), ("-F", b"y"),
            ("--allow", b"z"), ("--warn", b"w"), ("--deny", b"d"), ("--forbid", b"f")]);
        let v = if rng.chance(1, 40) { b"\xff".to_vec() } else { v.to_vec() };
        groups.push(g(rng, f, &v)); }
    for _ in 0..rng.below(3) { groups.push(vec![pick(rng, 5, &[b"--edition=2021", b"-g", b"-O", b"--test", b"-Copt", b"-vV", b"--", b"-\xff", b"--Emit=x", b"--cfgx", b"-Lx", b"--crate-namefoo"])]); }
    if rng.chance(1, 40) { let (f, v): (&str, &[u8]) = *rng.pick(&[("-o", &b"out"[..]), ("--sysroot", b"/s"), ("--print", b"cfg"), ("--explain", b"E1"), ("--pretty", b"x"), ("--unpretty", b"y")]); groups.push(g(rng, f, v)); }
    if rng.chance(1, 50) { groups.push(vec![rng.pick(&[&b"-"[..], b"--version", b"-V", b"--help"]).to_vec()]); }
    // shuffle the groups (cargo's order is not fixed), then sometimes cut the command line short (a flag left without its value)
    for i in (1..groups.len()).rev() { let j = rng.below(i as u64 + 1) as usize; groups.swap(i, j); }
    let mut argv: Vec<Vec<u8>> = groups.into_iter().flatten().collect();
    if rng.chance(1, 30) && !argv.is_empty() { let k = rng.below(argv.len() as u64) as usize; argv.truncate(k + 1); if rng.chance(1, 2) { argv.push(rng.pick(&[&b"--emit"[..], b"-C", b"-L", b"--extern", b"--cfg", b"--crate-name", b"-l", b"--target"]).to_vec()); } }
    argv
}

/// externs as lists of path components: `a//b`, `a/./b` and `a/b` are one path (they compare equal as `PathBuf`s, so the stable
/// sort keeps their input order; they name the same file, so the digests that are hashed do not depend on it)
fn norm_paths(f: &str) -> Vec<Vec<String>> {
    if f == "-" { return vec![]; }
    f.split(',').map(|h| { let p = if h == "e" { vec![] } else { unhex(h) }; let t = String::from_utf8_lossy(&p).to_string();
        let mut c: Vec<String> = t.split('/').filter(|x| !x.is_empty() && *x != ".").map(|x| x.to_string()).collect(); if t.starts_with('/') { c.insert(0, "/".into()); } c }).collect()
}

fn field<'a>(r: &'a str, k: &str) -> &'a str { r.split(' ').find_map(|f| f.strip_prefix(k)).unwrap_or("") }

fn main() {
    quiet_panics();
    let mut a: Vec<String> = std::env::args().collect();
    // output paths are taken relative to the starting directory (the process changes directory below)
    let start = std::env::current_dir().unwrap();
    for i in 3..a.len().min(5) { if a[1] == "gen" { a[i] = start.join(&a[i]).to_string_lossy().to_string(); } }
    let tmp = tempfile::tempdir().unwrap(); let cwd = tmp.path().join("cwd"); std::fs::create_dir_all(&cwd).unwrap();
    // the world: static libraries in native search paths, a target-spec json next to the process
    for f in ["n/libz.a", "n/y.lib", "n2/z.a", "n2/liby.a", "probe.json", "dir/probe.json", "dir/t.json"] { let p = cwd.join(f); std::fs::create_dir_all(p.parent().unwrap()).unwrap(); std::fs::write(&p, b"x").unwrap(); }
    std::env::set_current_dir(&cwd).unwrap();      // `ArgTarget` probes `<target>.json` relative to the *process* directory
    let mut existing: Vec<Vec<u8>> = vec![];
    for e in walkdir::WalkDir::new(&cwd).into_iter().filter_map(|e| e.ok()).filter(|e| e.file_type().is_file()) {
        existing.push(e.path().as_os_str().as_bytes().to_vec()); existing.push(e.path().strip_prefix(&cwd).unwrap().as_os_str().as_bytes().to_vec()); }
    let hl = |l: &[Vec<u8>]| if l.is_empty() { "-".to_string() } else { l.iter().map(|x| hex_e(x)).collect::<Vec<_>>().join(",") };
    match a.get(1).map(|s| s.as_str()) {
        Some("gen") => {
            let n: u64 = a[2].parse().unwrap(); let mut rng = Rng::from_env();
            let mut tr = std::io::BufWriter::new(std::fs::File::create(&a[3]).unwrap());
            let mut hist = std::collections::BTreeMap::<String, u64>::new(); let mut fails = vec![]; let mut samples = vec![];
            let mut distinct = std::collections::BTreeSet::new(); let mut nontrivial = 0u64;
            for _ in 0..n {
                let argv = gen_argv(&mut rng);
                let r = parse(&argv, &cwd);
                writeln!(tr, "{}\t{}\t{}\t{}", hex(cwd.as_os_str().as_bytes()), hl(&argv), hl(&existing), r).unwrap();
                let cls = if r.starts_with("ok") { "ok".to_string() } else { r.clone() };
                *hist.entry(cls).or_insert(0) += 1;
                if distinct.insert(r.clone()) && r.starts_with("ok") { nontrivial += 1; }
                let show = || argv.iter().map(|x| String::from_utf8_lossy(x).to_string()).collect::<Vec<_>>().join(" ");
                if samples.len() < 3 && r.starts_with("ok") && argv.len() > 12 { samples.push(format!("{} => {}", show(), &r[..r.len().min(160)])); }
                if r == "panic" { fails.push(fail_json("parser_panicked", &show(), &[hl(&argv)], "")); }
                if r.starts_with("ok") {
                    // ---- every argument other than --color reaches the list that is hashed
                    let nargs = if field(&r, "args=") == "-" { 0 } else { field(&r, "args=").split(',').count() };
                    let mut expect = 0usize; let mut i = 0;
                    while i < argv.len() { let x = &argv[i]; let is = |f: &str| x == f.as_bytes();
                        let takes = ["--allow", "--cap-lints", "--cfg", "--check-cfg", "--codegen", "--color", "--crate-name", "--crate-type", "--deny", "--emit", "--error-format", "--extern", "--forbid", "--json", "--out-dir", "--remap-path-prefix", "--target", "--warn", "-A", "-C", "-D", "-F", "-L", "-W", "-Z", "-l"];
                        let color = is("--color") || x.starts_with(b"--color=");
                        if takes.iter().any(|f| is(f)) { i += 2; } else { i += 1; }
                        if !color { expect += 1; } }
                    if nargs != expect { fails.push(fail_json("argument_lost", &format!("{} arguments on the command line (without --color), {} in the parsed list: {}", expect, nargs, show()), &[hl(&argv)], "")); }
                    // ---- moving --extern / --cfg / -L groups changes neither the verdict nor the sorted externs nor the multiset of arguments
                    let takes = ["--allow", "--cap-lints", "--cfg", "--check-cfg", "--codegen", "--color", "--crate-name", "--crate-type", "--deny", "--emit", "--error-format", "--extern", "--forbid", "--json", "--out-dir", "--remap-path-prefix", "--target", "--warn", "-A", "-C", "-D", "-F", "-L", "-W", "-Z", "-l"];
                    let mut groups: Vec<Vec<Vec<u8>>> = vec![]; let mut i = 0;
                    while i < argv.len() { let x = &argv[i]; if takes.iter().any(|f| x == f.as_bytes()) && i + 1 < argv.len() { groups.push(vec![x.clone(), argv[i + 1].clone()]); i += 2; } else { groups.push(vec![x.clone()]); i += 1; } }
                    // (a flag left without its value at the end of the command line would swallow its new neighbour: not moved)
                    let movable = |g: &Vec<Vec<u8>>| (g.len() == 2 && (g[0] == b"--extern" || g[0] == b"--cfg" || g[0] == b"-L")) || g[0].starts_with(b"--extern=") || g[0].starts_with(b"--cfg=") || (g[0].starts_with(b"-L") && g[0].len() > 2);
                    let idx: Vec<usize> = (0..groups.len()).filter(|i| movable(&groups[*i])).collect();
                    if idx.len() >= 2 {
                        let mut perm = idx.clone(); perm.reverse();
                        let mut g2 = groups.clone(); for (k, i) in idx.iter().enumerate() { g2[*i] = groups[perm[k]].clone(); }
                        let argv2: Vec<Vec<u8>> = g2.into_iter().flatten().collect(); let r2 = parse(&argv2, &cwd);
                        let multiset = |r: &str| { let mut v: Vec<String> = field(r, "args=").split(',').map(|s| s.to_string()).collect(); v.sort(); v };
                        if !r2.starts_with("ok") || norm_paths(field(&r2, "externs=")) != norm_paths(field(&r, "externs=")) || multiset(&r2) != multiset(&r) || field(&r2, "staticlibs=") != field(&r, "staticlibs=") && !idx.iter().any(|i| groups[*i][0].starts_with(b"-L")) {
                            fails.push(fail_json("reordering_changes_result", &format!("{}  ||  reordered: {}", r, r2), &[hl(&argv), hl(&argv2)], "")); }
                    }
                }
            }
            std::fs::write(&a[4], format!("{{\"cases\":{},\"distinct_nontrivial\":{},\"histogram\":{{{}}},\"monitor_failures\":[{}],\"samples\":[{}]}}", n, nontrivial,
                hist.iter().map(|(k, v)| format!("{}:{}", jstr(k), v)).collect::<Vec<_>>().join(","), fails.join(","), samples.iter().map(|s| jstr(s)).collect::<Vec<_>>().join(","))).unwrap();
        }
        _ => { let argv: Vec<Vec<u8>> = std::env::args_os().skip(2).map(|x| x.into_vec()).collect(); println!("{}", parse(&argv, &cwd)); }
    }
}
