//! C06 (and the rename discipline used by C10): the two-phase store of the disk cache under arbitrary
//! interleavings, aborts, evictions, crash and reopen — real `LruDiskCache`, real files, real descriptors.
//!
//! A *thread* is a program counter exactly as in `Model/Atomic.lean`; the harness executes one step of one thread at
//! a time, which is faithful because every `DiskCache` path holds the cache mutex around each `LruDiskCache` call
//! and performs the body write / read outside of it.
//!
//! usage: h_atomic gen <n_cases> <trace_out> <summary_out>  |  h_atomic replay <acts_file>
use sccache::lru_disk_cache::{Error, LruDiskCache, LruDiskCacheAddEntry};
use std::collections::BTreeMap;
use std::io::{Read, Write};
use std::path::{Path, PathBuf};
use verif_harness::*;

const NKEYS: u64 = 4;
const NTID: u64 = 6;
fn keyname(k: u64) -> String { format!("{}/{}/k{}", k, k, k) }

#[derive(Clone, Debug, PartialEq)]
enum Act { SpawnPut(u64, u64, u64, u64), SpawnGet(u64, u64), PutPrepare(u64), PutWrite(u64), PutCommit(u64), PutAbort(u64), GetOpen(u64), GetRead(u64), ExtOpen(u64), Evict(u64), Crash }

fn act_str(a: &Act) -> String {
    match a {
        Act::SpawnPut(t, k, v, n) => format!("spawnPut {} {} {} {}", t, k, v, n), Act::SpawnGet(t, k) => format!("spawnGet {} {}", t, k),
        Act::PutPrepare(t) => format!("putPrepare {}", t), Act::PutWrite(t) => format!("putWrite {}", t), Act::PutCommit(t) => format!("putCommit {}", t),
        Act::PutAbort(t) => format!("putAbort {}", t), Act::GetOpen(t) => format!("getOpen {}", t), Act::GetRead(t) => format!("getRead {}", t),
        Act::ExtOpen(t) => format!("extOpen {}", t), Act::Evict(k) => format!("evict {}", k), Act::Crash => "crash".into(),
    }
}
fn parse_act(l: &str) -> Option<Act> {
    let t: Vec<&str> = l.split_whitespace().collect();
    let n = |i: usize| t.get(i).and_then(|x| x.parse::<u64>().ok());
    Some(match *t.first()? {
        "spawnPut" => Act::SpawnPut(n(1)?, n(2)?, n(3)?, n(4)?), "spawnGet" => Act::SpawnGet(n(1)?, n(2)?), "putPrepare" => Act::PutPrepare(n(1)?),
        "putWrite" => Act::PutWrite(n(1)?), "putCommit" => Act::PutCommit(n(1)?), "putAbort" => Act::PutAbort(n(1)?), "getOpen" => Act::GetOpen(n(1)?),
        "getRead" => Act::GetRead(n(1)?), "extOpen" => Act::ExtOpen(n(1)?), "evict" => Act::Evict(n(1)?), "crash" => Act::Crash, _ => return None,
    })
}

enum Th { Idle, PutStart(u64, u64, u64), PutWriting { k: u64, v: u64, total: u64, written: u64, entry: LruDiskCacheAddEntry }, GetStart(u64), GetReading(u64, std::fs::File), Done }

/// chunk i of value (k, v, total)
fn chunk(k: u64, v: u64, total: u64, i: u64) -> String { format!("{}:{}:{}:{}\n", k, v, total, i) }

/// decode file bytes: Some((k, v, written, total)) if every chunk belongs to one value and chunks are 0..written, else None ("mixed")
fn decode(b: &[u8]) -> Option<(u64, u64, u64, u64)> {
    let s = std::str::from_utf8(b).ok()?;
    if !s.is_empty() && !s.ends_with('\n') { return None; }
    let mut hdr: Option<(u64, u64, u64)> = None; let mut n = 0u64;
    for l in s.lines() {
        let p: Vec<u64> = l.split(':').map(|x| x.parse::<u64>().ok()).collect::<Option<Vec<_>>>()?;
        if p.len() != 4 || p[3] != n { return None; }
        match hdr { None => hdr = Some((p[0], p[1], p[2])), Some(h) => if h != (p[0], p[1], p[2]) { return None; } }
        n += 1;
    }
    hdr.map(|(k, v, t)| (k, v, n, t))
}

struct Outcome { lines: Vec<String>, fails: Vec<(String, String)>, hits: u64, interleaved: bool, crashes: u64 }

/// a panic inside the cache code is an observation (C07 "never wedges": a panic under `DiskCache`'s mutex poisons it), not a harness crash
fn run_case(acts: &[Act]) -> Outcome {
    match std::panic::catch_unwind(|| run_case_inner(acts)) {
        Ok(o) => o,
        Err(p) => { let msg = p.downcast_ref::<String>().cloned().or_else(|| p.downcast_ref::<&str>().map(|s| s.to_string())).unwrap_or_default();
            Outcome { lines: vec!["new".into()], fails: vec![("panic_in_cache_code".into(), format!("the real LruDiskCache panicked during this interleaving: {}", msg))], hits: 0, interleaved: false, crashes: 0 } }
    }
}

fn run_case_inner(acts: &[Act]) -> Outcome {
    let dir = tempfile::tempdir().unwrap();
    let root: PathBuf = dir.path().join("cache");
    let mut cache = LruDiskCache::new(root.clone(), 1 << 30).unwrap();
    let mut th: Vec<Th> = (0..NTID).map(|_| Th::Idle).collect();
    // ghost: total of the zero-chunk values is not recoverable from an empty file; remember what each (k) file should say
    let mut empty_meta: BTreeMap<String, (u64, u64, u64)> = BTreeMap::new(); // path -> (k, v, total) for files with zero chunks
    let mut out = Outcome { lines: vec!["new".into()], fails: vec![], hits: 0, interleaved: false, crashes: 0 };
    let mut writers_live = 0;
    for a in acts {
        let mut obs = "-".to_string();
        match a {
            Act::SpawnPut(t, k, v, n) => { if let Th::Idle = th[*t as usize] { th[*t as usize] = Th::PutStart(*k, *v, *n); } }
            Act::SpawnGet(t, k) => { if let Th::Idle = th[*t as usize] { th[*t as usize] = Th::GetStart(*k); } }
            Act::PutPrepare(t) => { if let Th::PutStart(k, v, n) = th[*t as usize] {
                let entry = cache.prepare_add(keyname(k), n * 8).expect("prepare_add");
                writers_live += 1; if writers_live > 1 { out.interleaved = true; }
                th[*t as usize] = Th::PutWriting { k, v, total: n, written: 0, entry }; } }
            Act::PutWrite(t) => { if let Th::PutWriting { k, v, total, written, entry } = &mut th[*t as usize] {
                if *written < *total { entry.as_file_mut().write_all(chunk(*k, *v, *total, *written).as_bytes()).unwrap(); *written += 1; } } }
            Act::PutCommit(t) => {
                let ready = matches!(&th[*t as usize], Th::PutWriting { total, written, .. } if written == total);
                if ready { if let Th::PutWriting { k, v, total, entry, .. } = std::mem::replace(&mut th[*t as usize], Th::Done) {
                    if total == 0 { empty_meta.insert(keyname(k), (k, v, 0)); } else { empty_meta.remove(&keyname(k)); }
                    writers_live -= 1;
                    if let Err(e) = cache.commit(entry) { out.fails.push(("commit_failed".into(), format!("{}", e))); } } } }
            Act::PutAbort(t) => { if let Th::PutWriting { .. } = th[*t as usize] { th[*t as usize] = Th::Done; writers_live -= 1; } }
            Act::GetOpen(t) => { if let Th::GetStart(k) = th[*t as usize] {
                match cache.get_file(keyname(k)) {
                    Ok(f) => th[*t as usize] = Th::GetReading(k, f.into()),
                    Err(Error::FileNotInCache) => { th[*t as usize] = Th::Done; obs = format!("miss {}", t); }
                    Err(_) => { th[*t as usize] = Th::Done; obs = format!("ioErr {}", t); } } } }
            Act::ExtOpen(t) => { if let Th::GetStart(k) = th[*t as usize] {
                match std::fs::File::open(root.join(keyname(k))) {
                    Ok(f) => th[*t as usize] = Th::GetReading(k, f),
                    Err(_) => { th[*t as usize] = Th::Done; obs = format!("miss {}", t); } } } }
            Act::GetRead(t) => { if let Th::GetReading(k, _) = &th[*t as usize] { let k = *k;
                if let Th::GetReading(_, mut f) = std::mem::replace(&mut th[*t as usize], Th::Done) {
                    let mut b = vec![]; f.read_to_end(&mut b).unwrap();
                    out.hits += 1;
                    let dec = if b.is_empty() { empty_meta.get(&keyname(k)).map(|m| (m.0, m.1, 0, m.2)) } else { decode(&b) };
                    match dec {
                        Some((ck, cv, w, tot)) => {
                            obs = format!("hit {} {}:{}:{}/{}", t, ck, cv, w, tot);
                            // ---- monitor C06: complete, and stored under the key that was asked for
                            if ck != k { out.fails.push(("foreign_entry".into(), format!("asked key {} got value of key {}", k, ck))); }
                            if w != tot { out.fails.push(("partial_entry".into(), format!("key {} returned {} of {} chunks", k, w, tot))); }
                        }
                        None => { obs = format!("hit {} mixed", t); out.fails.push(("mixed_entry".into(), format!("key {}: bytes are not the chunks of one store: {:?}", k, String::from_utf8_lossy(&b)))); }
                    } } } }
            Act::Evict(k) => { let _ = cache.remove(keyname(*k)); empty_meta.remove(&keyname(*k)); }
            Act::Crash => {
                // the process dies: nothing is cleaned up (temp files stay on disk), memory is gone
                for t in th.iter_mut() { if let Th::PutWriting { mut entry, .. } = std::mem::replace(t, Th::Idle) {
                    // forget the handle (no destructor: the temp file stays on disk, as after a kill) but do not leak its descriptor
                    let fd = std::os::unix::io::AsRawFd::as_raw_fd(entry.as_file_mut()); std::mem::forget(entry); unsafe { libc::close(fd); } } }
                writers_live = 0; out.crashes += 1;
                drop(cache);
                cache = LruDiskCache::new(root.clone(), 1 << 30).unwrap();
            }
        }
        // ---- canonical observation of the directory and index
        let idx: String = (0..NKEYS).map(|k| if cache.contains_key(keyname(k)) { '1' } else { '0' }).collect();
        let mut files = vec![]; let mut temps = 0;
        for e in walkdir::WalkDir::new(&root).into_iter().filter_map(|e| e.ok()) {
            if !e.file_type().is_file() { continue; }
            if e.file_name().to_string_lossy().starts_with(".sccachetmp") { temps += 1; continue; }
            let rel = e.path().strip_prefix(&root).unwrap().to_string_lossy().to_string();
            let k = (0..NKEYS).find(|k| keyname(*k) == rel);
            let b = std::fs::read(e.path()).unwrap();
            let dec = if b.is_empty() { empty_meta.get(&rel).map(|m| (m.0, m.1, 0, m.2)) } else { decode(&b) };
            match (k, dec) {
                (Some(k), Some((ck, cv, w, tot))) => { files.push((k, format!("{}={}:{}:{}/{}", k, ck, cv, w, tot)));
                    if ck != k || w != tot { out.fails.push(("bad_file_at_key_path".into(), format!("path of key {} holds {}:{}:{}/{}", k, ck, cv, w, tot))); } }
                (Some(k), None) => { files.push((k, format!("{}=mixed", k))); out.fails.push(("mixed_file_at_key_path".into(), format!("key {}", k))); }
                (None, _) => out.fails.push(("foreign_file".into(), rel)),
            }
        }
        files.sort();
        if matches!(a, Act::Crash) && temps != 0 { out.fails.push(("temp_survives_reopen".into(), format!("{} temp files after reopen", temps))); }
        for k in 0..NKEYS { let on_disk = files.iter().any(|f| f.0 == k);
            if cache.contains_key(keyname(k)) != on_disk { out.fails.push(("index_disk_mismatch".into(), format!("key {} indexed={} on_disk={} after {}", k, !on_disk, on_disk, act_str(a)))); } }
        out.lines.push(format!("{} -> {} | idx={} files={} temps={}", act_str(a), obs, idx, files.iter().map(|f| f.1.clone()).collect::<Vec<_>>().join(","), temps));
        if !out.fails.is_empty() { break; }
    }
    // leave no forgotten temp handles behind: the tempdir is removed recursively anyway
    out
}

fn gen_case(rng: &mut Rng) -> Vec<Act> {
    // generator-side shadow of the program counters so that most chosen actions are enabled; 1 in 10 is arbitrary
    #[derive(Clone, Copy, PartialEq)] enum P { Idle, Writing(u64, u64, u64), GetStart, Reading, Done }
    let n = 20 + rng.below(60);
    let nk = if rng.chance(2, 3) { 2 } else { NKEYS };
    let mut ph = vec![P::Idle; NTID as usize];
    let mut committed: Vec<u64> = vec![];
    let mut acts = vec![];
    for _ in 0..n {
        let t = rng.below(NTID);
        let k = if !committed.is_empty() && rng.chance(2, 3) { *rng.pick(&committed) } else { rng.below(nk) };
        if rng.chance(1, 10) {
            let a = match rng.below(8) { 0 => Act::PutPrepare(t), 1 => Act::PutWrite(t), 2 => Act::PutCommit(t), 3 => Act::PutAbort(t), 4 => Act::GetOpen(t),
                5 => Act::GetRead(t), 6 => Act::ExtOpen(t), _ => Act::Evict(k) };
            // keep the shadow in step with what model and implementation do with this action in the current phase
            ph[t as usize] = match (&a, ph[t as usize]) {
                (Act::PutWrite(_), P::Writing(kk, w, tot)) if w < tot => P::Writing(kk, w + 1, tot),
                (Act::PutCommit(_), P::Writing(kk, w, tot)) if w == tot => { committed.push(kk); P::Done }
                (Act::PutAbort(_), P::Writing(..)) => P::Done,
                (Act::GetOpen(_), P::GetStart) | (Act::ExtOpen(_), P::GetStart) => P::Reading,   // may also end in a miss; a later getRead is then a no-op
                (Act::GetRead(_), P::Reading) => P::Done,
                (_, p) => p };
            if let Act::Evict(kk) = a { committed.retain(|x| *x != kk); }
            acts.push(a); continue;
        }
        let a = match ph[t as usize] {
            P::Idle => if committed.is_empty() || rng.chance(1, 2) { let total = 1 + rng.below(3); acts.push(Act::SpawnPut(t, k, rng.below(50), total)); ph[t as usize] = P::Writing(k, 0, total); Act::PutPrepare(t) }
                       else { ph[t as usize] = P::GetStart; Act::SpawnGet(t, k) },
            P::Writing(kk, w, tot) => if w < tot && rng.chance(5, 6) { ph[t as usize] = P::Writing(kk, w + 1, tot); Act::PutWrite(t) }
                                  else if w == tot { ph[t as usize] = P::Done; committed.push(kk); Act::PutCommit(t) }
                                  else if rng.chance(1, 2) { ph[t as usize] = P::Done; Act::PutAbort(t) } else { Act::PutCommit(t) },
            P::GetStart => { ph[t as usize] = P::Reading; if rng.chance(5, 6) { Act::GetOpen(t) } else { Act::ExtOpen(t) } }
            P::Reading => { ph[t as usize] = P::Done; Act::GetRead(t) }
            P::Done => match rng.below(10) { 0 => { for p in ph.iter_mut() { *p = P::Idle; } Act::Crash } 1 | 2 => { committed.retain(|x| *x != k); Act::Evict(k) } _ => continue },
        };
        acts.push(a);
        if rng.chance(1, 60) { for p in ph.iter_mut() { *p = P::Idle; } acts.push(Act::Crash); }
    }
    acts
}

fn read_acts(p: &Path) -> Option<Vec<Act>> {
    let s = std::fs::read_to_string(p).ok()?;
    Some(s.lines().filter(|l| !l.trim().is_empty() && !l.starts_with('#') && l.trim() != "new").filter_map(|l| parse_act(l.split("->").next().unwrap())).collect())
}

fn main() {
    quiet_panics(); raise_nofile();
    let a: Vec<String> = std::env::args().collect();
    match a.get(1).map(|s| s.as_str()) {
        Some("gen") => {
            let n: u64 = a[2].parse().unwrap();
            let mut rng = Rng::from_env();
            let mut trace = std::io::BufWriter::new(std::fs::File::create(&a[3]).unwrap());
            let mut cases: Vec<Vec<Act>> = vec![];
            if let Ok(dir) = std::env::var("VERIF_CORPUS") { if let Ok(rd) = std::fs::read_dir(&dir) { let mut ps: Vec<_> = rd.filter_map(|e| e.ok()).map(|e| e.path()).collect(); ps.sort();
                for p in ps { if let Some(c) = read_acts(&p) { cases.push(c); } } } }
            let ncorpus = cases.len();
            for _ in 0..n { cases.push(gen_case(&mut rng)); }
            let (mut steps, mut hits, mut crashes, mut inter) = (0u64, 0u64, 0u64, 0u64);
            let mut distinct = std::collections::BTreeSet::new(); let mut nontrivial = 0u64;
            let mut fails = vec![]; let mut samples: Vec<String> = vec![]; let mut hist: BTreeMap<String, u64> = BTreeMap::new();
            for (ci, acts) in cases.iter().enumerate() {
                let o = run_case(acts);
                for l in &o.lines { writeln!(trace, "{}", l).unwrap(); }
                steps += o.lines.len() as u64 - 1; hits += o.hits; crashes += o.crashes; if o.interleaved { inter += 1; }
                for x in acts { *hist.entry(act_str(x).split(' ').next().unwrap().to_string()).or_insert(0) += 1; }
                if distinct.insert(o.lines.join(";")) && o.hits > 0 && (o.interleaved || o.crashes > 0) { nontrivial += 1; }
                if samples.len() < 3 && o.hits > 1 && o.interleaved { samples.push(o.lines.join(" ; ")); }
                if let Some(f) = o.fails.first() {
                    if fails.len() >= 6 { continue; }          // enough replays; every further failing case would be shrunk at the cost of hundreds of runs
                    // shrink
                    let mut cur = acts.clone();
                    loop { let mut progressed = false; let mut i = 0;
                        while i < cur.len() { let mut cand = cur.clone(); cand.remove(i);
                            if run_case(&cand).fails.first().map(|x| &x.0) == Some(&f.0) { cur = cand; progressed = true; } else { i += 1; } }
                        if !progressed { break; } }
                    fails.push(format!("{{\"kind\":\"{}\",\"detail\":\"{}\",\"case\":{},\"corpus\":{},\"ops\":[{}]}}", f.0, f.1.replace('"', "'").replace('\n', " "), ci, ci < ncorpus,
                        cur.iter().map(|o| format!("\"{}\"", act_str(o))).collect::<Vec<_>>().join(",")));
                }
            }
            let summary = format!("{{\"cases\":{},\"corpus_cases\":{},\"steps\":{},\"reads_checked\":{},\"crashes\":{},\"cases_with_concurrent_writers\":{},\"distinct_nontrivial\":{},\"op_histogram\":{{{}}},\"monitor_failures\":[{}],\"samples\":[{}]}}",
                cases.len(), ncorpus, steps, hits, crashes, inter, nontrivial, hist.iter().map(|(k, v)| format!("\"{}\":{}", k, v)).collect::<Vec<_>>().join(","),
                fails.join(","), samples.iter().map(|s| format!("\"{}\"", s)).collect::<Vec<_>>().join(","));
            std::fs::write(&a[4], summary).unwrap();
        }
        Some("replay") => {
            let acts = read_acts(Path::new(&a[2])).expect("acts file");
            let o = run_case(&acts);
            for l in &o.lines { println!("{}", l); }
            for f in &o.fails { println!("MONITOR-FAIL {} {}", f.0, f.1); }
            std::process::exit(if o.fails.is_empty() { 0 } else { 1 });
        }
        Some("stress") => {
            // search for a literal C06 violation with real threads: the DiskCache discipline (lock{prepare_add}; write unlocked;
            // lock{commit}  /  lock{get_file}; read unlocked) on two keys with multi-megabyte single-byte-filled values
            let millis: u64 = a[2].parse().unwrap();
            let dir = tempfile::tempdir().unwrap();
            let cache = std::sync::Arc::new(std::sync::Mutex::new(LruDiskCache::new(dir.path().join("c"), 1 << 32).unwrap()));
            let stop = std::sync::Arc::new(std::sync::atomic::AtomicBool::new(false));
            let bad: std::sync::Arc<std::sync::Mutex<Vec<String>>> = Default::default();
            let reads = std::sync::Arc::new(std::sync::atomic::AtomicU64::new(0));
            let len_of = |fill: u8| 1_000_000usize + (fill as usize) * 4096;
            let mut hs = vec![];
            for w in 0..3u8 { let (cache, stop) = (cache.clone(), stop.clone());
                hs.push(std::thread::spawn(move || { let mut fill = w * 40 + 1;
                    while !stop.load(std::sync::atomic::Ordering::Relaxed) {
                        let key = keyname((fill % 2) as u64); let n = len_of(fill);
                        let entry = { cache.lock().unwrap().prepare_add(key, n as u64) };
                        if let Ok(mut e) = entry { let chunk = vec![fill; 65536]; let mut left = n;
                            while left > 0 { let k = left.min(chunk.len()); e.as_file_mut().write_all(&chunk[..k]).unwrap(); left -= k; }
                            let _ = cache.lock().unwrap().commit(e); }
                        fill = fill.wrapping_add(1); if fill == 0 { fill = 1; } } })); }
            for _ in 0..4 { let (cache, stop, bad, reads) = (cache.clone(), stop.clone(), bad.clone(), reads.clone());
                hs.push(std::thread::spawn(move || { let mut i = 0u64;
                    while !stop.load(std::sync::atomic::Ordering::Relaxed) { i += 1;
                        let f = { cache.lock().unwrap().get_file(keyname(i % 2)) };
                        if let Ok(mut f) = f { let mut b = vec![]; f.read_to_end(&mut b).unwrap(); reads.fetch_add(1, std::sync::atomic::Ordering::Relaxed);
                            let ok = !b.is_empty() && b.iter().all(|x| *x == b[0]) && b.len() == 1_000_000usize + (b[0] as usize) * 4096;
                            if !ok { let first = b.first().cloned().unwrap_or(0); let cut = b.iter().position(|x| *x != first).unwrap_or(b.len());
                                bad.lock().unwrap().push(format!("lookup of key {} read {} bytes: {} x 0x{:02x} then {} other bytes (a complete value with that fill has {} bytes)", i % 2, b.len(), cut, first, b.len() - cut, 1_000_000usize + (first as usize) * 4096)); } } } })); }
            std::thread::sleep(std::time::Duration::from_millis(millis)); stop.store(true, std::sync::atomic::Ordering::Relaxed);
            for h in hs { let _ = h.join(); }
            let bad = bad.lock().unwrap();
            println!("{{\"reads\":{},\"violations\":{},\"first\":{}}}", reads.load(std::sync::atomic::Ordering::Relaxed), bad.len(), jstr(bad.first().map(|s| s.as_str()).unwrap_or("")));
            std::process::exit(if bad.is_empty() { 0 } else { 1 });
        }
        _ => { eprintln!("usage: h_atomic gen <n> <trace> <summary> | replay <acts> | stress <millis>"); std::process::exit(2); }
    }
}
