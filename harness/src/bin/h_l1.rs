//! C09/C01/C03/C15 (L1): exhaustive enumeration of the decision alphabet of `get_cached_or_compile` on the real code
//! (fault-injecting `Storage` around the real `DiskCache`, real gcc through a logging wrapper) for `modeld l1`, and
//! of the preprocessor-cache section of `generate_hash_key` with on-disk faults of the entry file.
//! usage: h_l1 <trace_out> <summary_out>
use sccache::verif::*;
use verif_harness::*;
use std::ffi::OsString;
use std::io::Write;
use std::path::PathBuf;
use std::sync::{Arc, Mutex};
use std::time::Duration;

#[derive(Clone, Copy, Debug, PartialEq)]
enum LookupMode { Inner, Miss, Err, Undecodable }

struct FaultStorage { inner: Arc<dyn Storage>, lookup: Mutex<LookupMode>, store_ok: Mutex<bool>, puts: Mutex<u32>, gets: Mutex<u32> }

#[async_trait::async_trait]
impl Storage for FaultStorage {
    async fn get(&self, key: &str) -> sccache::errors::Result<Cache> {
        *self.gets.lock().unwrap() += 1;
        let mode = *self.lookup.lock().unwrap();
        match mode {
            LookupMode::Inner => self.inner.get(key).await,
            LookupMode::Miss => Ok(Cache::Miss),
            LookupMode::Err => Err(anyhow::anyhow!("injected lookup error")),
            LookupMode::Undecodable => {
                // a well-formed zip whose "obj" member is not a zstd frame
                let mut w = zip::ZipWriter::new(std::io::Cursor::new(vec![]));
                w.start_file("obj", zip::write::FileOptions::default().compression_method(zip::CompressionMethod::Stored)).unwrap();
                w.write_all(b"this is not zstd").unwrap();
                let bytes = w.finish().unwrap().into_inner();
                Ok(Cache::Hit(CacheRead::from(std::io::Cursor::new(bytes)).unwrap()))
            }
        }
    }
    async fn put(&self, key: &str, entry: CacheWrite) -> sccache::errors::Result<Duration> {
        *self.puts.lock().unwrap() += 1;
        let ok = *self.store_ok.lock().unwrap();
        if ok { self.inner.put(key, entry).await } else { Err(anyhow::anyhow!("injected store error")) }
    }
    fn location(&self) -> String { "fault".into() }
    async fn current_size(&self) -> sccache::errors::Result<Option<u64>> { Ok(None) }
    async fn max_size(&self) -> sccache::errors::Result<Option<u64>> { Ok(None) }
}

fn main() {
    let a: Vec<String> = std::env::args().collect();
    let mut tr = std::io::BufWriter::new(std::fs::File::create(&a[1]).unwrap());
    let mut fails: Vec<String> = vec![]; let mut samples: Vec<String> = vec![]; let mut distinct = std::collections::BTreeSet::new();
    let rt = tokio::runtime::Builder::new_multi_thread().enable_all().worker_threads(4).build().unwrap();
    let pool = rt.handle().clone();
    let tmp = tempfile::tempdir().unwrap();
    let cwd = tmp.path().join("w"); std::fs::create_dir_all(&cwd).unwrap();
    // wrapper compiler that logs real compilations (not -E runs)
    let log = tmp.path().join("cc.log");
    let wrapper = tmp.path().join("gcc");
    std::fs::write(&wrapper, format!("#!/bin/sh\ncase \" $* \" in *\" -E \"*) ;; *) echo run >> {} ;; esac\nexec /usr/bin/gcc \"$@\"\n", log.display())).unwrap();
    use std::os::unix::fs::PermissionsExt;
    std::fs::set_permissions(&wrapper, std::fs::Permissions::from_mode(0o755)).unwrap();
    let disk = Arc::new(DiskCache::new(tmp.path().join("cache"), 10_000_000, &pool, PreprocessorCacheModeConfig::default(), CacheMode::ReadWrite));
    let fs = Arc::new(FaultStorage { inner: disk, lookup: Mutex::new(LookupMode::Inner), store_ok: Mutex::new(true), puts: Mutex::new(0), gets: Mutex::new(0) });
    let storage: Arc<dyn Storage> = fs.clone();
    let service = sccache::server::SccacheService::<ProcessCommandCreator>::mock_with_storage(storage.clone(), pool.clone());
    let jobserver = JobClient::new_num(2);
    let creator = <ProcessCommandCreator as CommandCreatorSync>::new(&jobserver);
    let env: Vec<(OsString, OsString)> = vec![("PATH".into(), "/usr/bin:/bin".into())];
    let mut n = 0;
    for &prestored in &[false, true] {
      for &control in &[CacheControl::Default, CacheControl::ForceRecache, CacheControl::ForceNoCache] {
        for &lookup in &[LookupMode::Inner, LookupMode::Miss, LookupMode::Err, LookupMode::Undecodable] {
          for &kind in &[0u8, 1, 2] { let compile_ok = kind == 0;
            for &store_ok in &[true, false] {
              n += 1;
              let src = cwd.join(format!("t{}.c", n));
              std::fs::write(&src, if kind == 0 { format!("int f{}(void){{return {};}}\n", n, n) } else if kind == 1 { format!("int f{}(void){{return }}\n", n) } else { format!("#error pp{}\n", n) }).unwrap();
              let args: Vec<OsString> = vec!["-c".into(), src.file_name().unwrap().into(), "-o".into(), format!("t{}.o", n).into()];
              let run = |mode: LookupMode, ctl: CacheControl, sok: bool| {
                  *fs.lookup.lock().unwrap() = mode; *fs.store_ok.lock().unwrap() = sok;
                  let _ = std::fs::remove_file(&log);
                  let _ = std::fs::remove_file(cwd.join(format!("t{}.o", n)));
                  let puts0 = *fs.puts.lock().unwrap();
                  let res = rt.block_on(async {
                      let (compiler, _) = get_compiler_info(creator.clone(), &wrapper, &cwd, &args, &env, &pool, None).await.unwrap();
                      let hasher = match compiler.parse_arguments(&args, &cwd, &env) { CompilerArguments::Ok(h) => h, _ => panic!("parse") };
                      let r = hasher.get_cached_or_compile(&service, None, creator.clone(), storage.clone(), args.clone(), cwd.clone(), env.clone(), ctl, pool.clone()).await;
                      match r {
                          Ok((cr, out)) => {
                              let name = match cr { CompileResult::Error => "Error".to_string(), CompileResult::CacheHit(_) => "CacheHit".to_string(),
                                  CompileResult::CacheMiss(mt, _, _, fut) => { let w = fut.await.is_ok(); format!("CacheMiss({:?},store={})", mt, w) }
                                  CompileResult::NotCached(..) => "NotCached".to_string(), CompileResult::NotCacheable(..) => "NotCacheable".to_string(),
                                  CompileResult::CompileFailed(..) => "CompileFailed".to_string() };
                              format!("{} ok={}", name, out.status.success())
                          }
                          Err(e) => format!("Err({:#})", e).replace("\n"," "),
                      }
                  });
                  let ran = std::fs::read_to_string(&log).map(|s| s.lines().count()).unwrap_or(0);
                  let puts = *fs.puts.lock().unwrap() - puts0;
                  (res, ran, puts, cwd.join(format!("t{}.o", n)).exists())
              };
              if prestored && compile_ok { let _ = run(LookupMode::Inner, CacheControl::Default, true); }
              let (res, ran, puts, obj) = run(lookup, control, store_ok);
              let line = format!("prestored={} control={:?} lookup={:?} compile_ok={} pp_ok={} store_ok={} | {} ran={} puts={} obj={}", prestored && compile_ok, control, lookup, compile_ok, kind != 2, store_ok, res, ran, puts, obj);
              writeln!(tr, "{}", line).unwrap();
              distinct.insert(format!("{} {}", res.split('(').next().unwrap_or(""), ran));
              if samples.len() < 3 && lookup != LookupMode::Inner { samples.push(line.clone()); }
              // ---- monitor (C09): whatever the cache does, a request whose compiler works delivers the compiler's result
              let fatal = res.starts_with("Err(") && !res.contains("error:");
              if fatal { fails.push(fail_json("fatal_on_storage_fault", &format!("lookup={:?} store_ok={} control={:?} compile_ok={}: {}", lookup, store_ok, control, compile_ok, &res[..res.len().min(160)]), &[line.clone()], "")); }
              if compile_ok && !obj { fails.push(fail_json("no_output", "successful request left no object file", &[line.clone()], "")); }
              if !compile_ok && puts > 0 { fails.push(fail_json("failed_compile_stored", "a failed compilation issued a store", &[line.clone()], "")); }
            }
          }
        }
      }
    }
    // ---- preprocessor-cache entry faults on disk (D.2): the request must still be answered by the compiler
    let mut ppcases = 0u64;
    {
        let cfg = PreprocessorCacheModeConfig { use_preprocessor_cache_mode: true, ..Default::default() };
        for (fi, fault) in ["none", "truncate0", "garbage", "bad_version", "directory", "delete", "half"].iter().enumerate() {
          for &control in &[CacheControl::Default, CacheControl::ForceRecache] {
            ppcases += 1;
            let cdir = tmp.path().join(format!("ppcache{}_{:?}", fi, control));
            let disk: Arc<dyn Storage> = Arc::new(DiskCache::new(&cdir, 10_000_000, &pool, cfg, CacheMode::ReadWrite));
            let hname = format!("pp{}_{:?}.h", fi, control); let cname = format!("pp{}_{:?}.c", fi, control);
            std::fs::write(cwd.join(&hname), "#define V 7\n").unwrap();
            std::fs::write(cwd.join(&cname), format!("#include \"{}\"\nint f(void){{return V;}}\n", hname)).unwrap();
            let args: Vec<OsString> = vec!["-c".into(), cname.clone().into(), "-o".into(), format!("{}.o", cname).into()];
            let run1 = |ctl: CacheControl| {
                let _ = std::fs::remove_file(cwd.join(format!("{}.o", cname)));
                let _ = std::fs::remove_file(&log);
                let res = rt.block_on(async {
                    let (compiler, _) = get_compiler_info(creator.clone(), &wrapper, &cwd, &args, &env, &pool, None).await.unwrap();
                    let hasher = match compiler.parse_arguments(&args, &cwd, &env) { CompilerArguments::Ok(h) => h, _ => panic!("parse") };
                    match hasher.get_cached_or_compile(&service, None, creator.clone(), disk.clone(), args.clone(), cwd.clone(), env.clone(), ctl, pool.clone()).await {
                        Ok((cr, out)) => { let name = match cr { CompileResult::Error => "Error".to_string(), CompileResult::CacheHit(_) => "CacheHit".to_string(),
                                CompileResult::CacheMiss(_, _, _, fut) => { let _ = fut.await; "CacheMiss".to_string() } CompileResult::NotCached(..) => "NotCached".to_string(),
                                CompileResult::NotCacheable(..) => "NotCacheable".to_string(), CompileResult::CompileFailed(..) => "CompileFailed".to_string() };
                            format!("{} ok={}", name, out.status.success()) }
                        Err(e) => format!("Err({:#})", e).replace("\n", " "),
                    } });
                (res, cwd.join(format!("{}.o", cname)).exists())
            };
            let (first, _) = run1(CacheControl::Default);
            // the preprocessor-cache entry file(s) of this request
            let mut files = vec![];
            for e in walkdir_files(&cdir.join("preprocessor")) { files.push(e); }
            for f in &files {
                match *fault { "truncate0" => { std::fs::write(f, b"").unwrap(); } "garbage" => { std::fs::write(f, b"\x00garbage that is not bincode").unwrap(); }
                    "bad_version" => { std::fs::write(f, b"\x07\x00\x00").unwrap(); } "directory" => { std::fs::remove_file(f).unwrap(); std::fs::create_dir(f).unwrap(); }
                    "delete" => { std::fs::remove_file(f).unwrap(); } "half" => { let b = std::fs::read(f).unwrap(); std::fs::write(f, &b[..b.len() / 2]).unwrap(); } _ => {} }
            }
            let (second, obj) = run1(control);
            let (third, obj3) = run1(CacheControl::Default);
            let line = format!("ppfault={} control={:?} entries={} | first={} second={} obj={} third={} obj3={}", fault, control, files.len(), first, second, obj, third, obj3);
            writeln!(tr, "# {}", line).unwrap();
            distinct.insert(format!("pp {} {:?} {}", fault, control, second));
            if files.is_empty() { fails.push(fail_json("pp_entry_not_written", "the first request did not write a preprocessor-cache entry", &[line.clone()], "")); }
            for (which, r, o) in [("second", &second, obj), ("third", &third, obj3)] {
                if r.starts_with("Err(") || !o { fails.push(fail_json("fatal_on_pp_entry_fault", &format!("preprocessor-cache entry fault `{}` ({:?}): {} request: {}", fault, control, which, &r[..r.len().min(160)]), &[line.clone()], "")); }
            }
          }
        }
    }
    // ---- preprocessor-cache entries that want rewriting when they are looked up (a header with __DATE__ / __TIMESTAMP__), against a cache that
    //      refuses the write-back (read-only): the lookup result must still be used or the request answered by preprocessing — never an error
    {
        let cfg = PreprocessorCacheModeConfig { use_preprocessor_cache_mode: true, ..Default::default() };
        for (hi, htext) in ["#define V 7\n", "#define V 7\nstatic const char *const stamp = __TIMESTAMP__;\n", "#define V 7\nstatic const char *const day = __DATE__;\n"].iter().enumerate() {
          for second_mode in [CacheMode::ReadWrite, CacheMode::ReadOnly] {
            ppcases += 1;
            let cdir = tmp.path().join(format!("ppwb{}_{:?}", hi, second_mode));
            let hname = format!("wb{}_{:?}.h", hi, second_mode); let cname = format!("wb{}_{:?}.c", hi, second_mode);
            std::fs::write(cwd.join(&hname), htext).unwrap();
            std::fs::write(cwd.join(&cname), format!("#include \"{}\"\nint f(void){{return V;}}\n", hname)).unwrap();
            let args: Vec<OsString> = vec!["-c".into(), cname.clone().into(), "-o".into(), format!("{}.o", cname).into()];
            let run1 = |disk: &Arc<dyn Storage>| {
                let _ = std::fs::remove_file(cwd.join(format!("{}.o", cname)));
                let res = rt.block_on(async {
                    let (compiler, _) = get_compiler_info(creator.clone(), &wrapper, &cwd, &args, &env, &pool, None).await.unwrap();
                    let hasher = match compiler.parse_arguments(&args, &cwd, &env) { CompilerArguments::Ok(h) => h, _ => panic!("parse") };
                    match hasher.get_cached_or_compile(&service, None, creator.clone(), disk.clone(), args.clone(), cwd.clone(), env.clone(), CacheControl::Default, pool.clone()).await {
                        Ok((cr, out)) => { let name = match cr { CompileResult::Error => "Error".to_string(), CompileResult::CacheHit(_) => "CacheHit".to_string(),
                                CompileResult::CacheMiss(_, _, _, fut) => { let _ = fut.await; "CacheMiss".to_string() } CompileResult::NotCached(..) => "NotCached".to_string(),
                                CompileResult::NotCacheable(..) => "NotCacheable".to_string(), CompileResult::CompileFailed(..) => "CompileFailed".to_string() };
                            format!("{} ok={}", name, out.status.success()) }
                        Err(e) => format!("Err({:#})", e).replace("\n", " "),
                    } });
                (res, cwd.join(format!("{}.o", cname)).exists())
            };
            let rw: Arc<dyn Storage> = Arc::new(DiskCache::new(&cdir, 10_000_000, &pool, cfg, CacheMode::ReadWrite));
            let (first, _) = run1(&rw); drop(rw);
            let again: Arc<dyn Storage> = Arc::new(DiskCache::new(&cdir, 10_000_000, &pool, cfg, second_mode));
            let (second, obj) = run1(&again); let (third, obj3) = run1(&again);
            let line = format!("ppwriteback header={} second_cache={:?} | first={} second={} obj={} third={} obj3={}", ["plain", "timestamp", "date"][hi], second_mode, first, second, obj, third, obj3);
            writeln!(tr, "# {}", line).unwrap();
            distinct.insert(format!("ppwb {} {:?} {}", hi, second_mode, second));
            for (which, r, o) in [("second", &second, obj), ("third", &third, obj3)] {
                if r.starts_with("Err(") || !o { fails.push(fail_json("fatal_on_pp_entry_fault", &format!("preprocessor-cache entry that wants rewriting ({} header) on a {:?} cache: {} request: {}", ["plain", "timestamp", "date"][hi], second_mode, which, &r[..r.len().min(160)]), &[line.clone()], "")); }
            }
          }
        }
    }
    std::fs::write(&a[2], format!("{{\"l1_cases\":{},\"pp_fault_cases\":{},\"distinct_nontrivial\":{},\"monitor_failures\":[{}],\"samples\":[{}]}}", n, ppcases, distinct.len(), fails.join(","), samples.iter().map(|s| jstr(s)).collect::<Vec<_>>().join(","))).unwrap();
}

fn walkdir_files(p: &std::path::Path) -> Vec<PathBuf> {
    let mut v = vec![];
    if let Ok(rd) = std::fs::read_dir(p) { for e in rd.flatten() { let p = e.path(); if p.is_dir() { v.extend(walkdir_files(&p)); } else { v.push(p); } } }
    v
}
