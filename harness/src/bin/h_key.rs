//! C02 (and the key part of C01/C03/C12): byte-exact tie between the Lean pre-image model (`Model/Key.lean`,
//! `encHash` / `encPre`) and the real `hash_key` / `preprocessor_cache_entry_hash_key`, plus the metamorphic
//! monitor "keys equal ⇔ components equal" on the real functions.
//!
//! usage: h_key gen <n_requests> <n_pairs> <requests_out> <realkeys_out> <summary_out> <scratch_dir>
//!        h_key cmp <requests> <realkeys> <model_preimages> <summary_in_out>
//!        h_key one <request line>            (prints the real key of one request line)
use sccache::verif::{hash_key, preprocessor_cache_entry_hash_key, Language};
use std::collections::BTreeMap;
use std::ffi::OsString;
use std::io::Write;
use std::os::unix::ffi::OsStringExt;
use verif_harness::*;

const LANGS: [Language; 14] = [Language::C, Language::Cxx, Language::GenericHeader, Language::CHeader, Language::CxxHeader, Language::ObjectiveC,
    Language::ObjectiveCxx, Language::ObjectiveCxxHeader, Language::Cuda, Language::CudaFE, Language::Ptx, Language::Cubin, Language::Rust, Language::Hip];
// the variables the statement calls "hashed": what must change a key (kept by hand: the oracle of the monitor is independent of the translator)
const C_ENV: [&str; 11] = ["SCCACHE_C_CUSTOM_CACHE_BUSTER", "MACOSX_DEPLOYMENT_TARGET", "IPHONEOS_DEPLOYMENT_TARGET", "TVOS_DEPLOYMENT_TARGET", "WATCHOS_DEPLOYMENT_TARGET", "SDKROOT", "CCC_OVERRIDE_OPTIONS", "LANG", "LC_ALL", "LC_CTYPE", "LC_MESSAGES"];
const P_ENV: [&str; 16] = ["SCCACHE_C_CUSTOM_CACHE_BUSTER", "CPATH", "C_INCLUDE_PATH", "CPLUS_INCLUDE_PATH", "OBJC_INCLUDE_PATH", "OBJCPLUS_INCLUDE_PATH", "MACOSX_DEPLOYMENT_TARGET", "IPHONEOS_DEPLOYMENT_TARGET", "TVOS_DEPLOYMENT_TARGET", "WATCHOS_DEPLOYMENT_TARGET", "SDKROOT", "CCC_OVERRIDE_OPTIONS", "LANG", "LC_ALL", "LC_CTYPE", "LC_MESSAGES"];

#[derive(Clone, Debug, PartialEq)]
struct Req { pre: bool, ign: bool, digest: String, plusplus: bool, lang: usize, args: Vec<Vec<u8>>, extra: Vec<String>, env: Vec<(Vec<u8>, Vec<u8>)>,
    pp: Vec<u8>,            // C key: preprocessor output; pre key: contents of the input file
    path: Vec<u8>,          // pre key only: file name component appended to the scratch dir
    keep_mtime: bool }      // pre key only: write the input file and give it back the modification time it had (cp -p, tar, rsync -t)

fn hl(l: &[Vec<u8>]) -> String { if l.is_empty() { "-".into() } else { l.iter().map(|x| hex_e(x)).collect::<Vec<_>>().join(",") } }

impl Req {
    fn line(&self, dir: &str, input_digest: &str, has_time: bool) -> String {
        let ek: Vec<Vec<u8>> = self.env.iter().map(|x| x.0.clone()).collect(); let ev: Vec<Vec<u8>> = self.env.iter().map(|x| x.1.clone()).collect();
        let ex: Vec<Vec<u8>> = self.extra.iter().map(|x| x.as_bytes().to_vec()).collect();
        let common = format!("{} {} {:?} {} {} {} {}", hex(self.digest.as_bytes()), self.plusplus as u8, LANGS[self.lang], hl(&self.args), hl(&ex), hl(&ek), hl(&ev));
        if self.pre { let mut p = dir.as_bytes().to_vec(); p.push(b'/'); p.extend(&self.path);
            format!("pre {} {} {} {} {}", self.ign as u8, common, hex(&p), hex(input_digest.as_bytes()), has_time as u8) }
        else { format!("{} {}", common, if self.pp.is_empty() { "-".to_string() } else { hex(&self.pp) }) }
    }
    /// the real key (`None` = preprocessor-level key disabled / error)
    fn real(&self, dir: &str) -> Option<String> {
        let args: Vec<OsString> = self.args.iter().map(|a| OsString::from_vec(a.clone())).collect();
        let env: Vec<(OsString, OsString)> = self.env.iter().map(|(k, v)| (OsString::from_vec(k.clone()), OsString::from_vec(v.clone()))).collect();
        if self.pre {
            let mut p = dir.as_bytes().to_vec(); p.push(b'/'); p.extend(&self.path);
            let path = std::path::PathBuf::from(OsString::from_vec(p));
            let old = if self.keep_mtime { std::fs::metadata(&path).ok().and_then(|m| m.modified().ok()) } else { None };
            std::fs::write(&path, &self.pp).unwrap();
            if let Some(t) = old { std::fs::File::options().write(true).open(&path).unwrap().set_modified(t).unwrap(); }
            let cfg = sccache::config::PreprocessorCacheModeConfig { ignore_time_macros: self.ign, ..Default::default() };
            preprocessor_cache_entry_hash_key(&self.digest, LANGS[self.lang], &args, &self.extra, &env, &path, self.plusplus, cfg).ok().flatten()
        } else { Some(hash_key(&self.digest, LANGS[self.lang], &args, &self.extra, &env, &self.pp, self.plusplus)) }
    }
    /// what the property calls the components of a request (language, not tag)
    fn components(&self) -> (bool, bool, String, bool, usize, Vec<Vec<u8>>, Vec<String>, Vec<(Vec<u8>, Vec<u8>)>, Vec<u8>, Vec<u8>) {
        let allow: &[&str] = if self.pre { &P_ENV } else { &C_ENV };
        let env = self.env.iter().filter(|(k, _)| allow.iter().any(|a| a.as_bytes() == &k[..])).cloned().collect();
        (self.pre, self.ign, self.digest.clone(), self.plusplus, self.lang, self.args.clone(), self.extra.clone(), env, self.pp.clone(), self.path.clone())
    }
}

fn hexdigest(rng: &mut Rng) -> String { (0..64).map(|_| char::from_digit(rng.below(16) as u32, 16).unwrap()).collect() }
fn bytes(rng: &mut Rng, max: u64, text: bool) -> Vec<u8> {
    let n = rng.below(max + 1);
    (0..n).map(|_| if text || rng.chance(9, 10) { *rng.pick(b"abcXYZ-_=/.019 ") } else { 1 + rng.below(255) as u8 }).collect()
}
fn pp_text(rng: &mut Rng) -> Vec<u8> {
    let frags: [&[u8]; 12] = [b"# 1 \"a.c\"\n", b"int x;\n", b"Header", b"++", b"/c++", b"uda", b"typedef int t;\n", b"__TIME__", b"__DATE__", b"=", b"\n", b"c"];
    let n = rng.below(6); let mut v = vec![]; for _ in 0..n { let f: &[u8] = frags[rng.below(12) as usize]; v.extend_from_slice(f); } v
}
fn gen_req(rng: &mut Rng, pre: bool) -> Req {
    let nargs = rng.below(5); let nextra = rng.below(3); let nenv = rng.below(5);
    let allow: &[&str] = if pre { &P_ENV } else { &C_ENV };
    Req { pre, ign: rng.chance(1, 2), digest: hexdigest(rng), plusplus: rng.chance(1, 2), lang: rng.below(14) as usize,
        args: (0..nargs).map(|_| { let t = rng.chance(3, 4); bytes(rng, 8, t) }).collect(),
        extra: (0..nextra).map(|_| hexdigest(rng)).collect(),
        env: (0..nenv).map(|_| { let k = if rng.chance(2, 3) { rng.pick(allow).as_bytes().to_vec() } else if rng.chance(1, 2) { rng.pick(&C_ENV).as_bytes().to_vec() } else { bytes(rng, 6, true) }; (k, bytes(rng, 6, false)) }).collect(),
        pp: pp_text(rng), path: { let mut p = b"in_".to_vec(); p.extend(bytes(rng, 4, true).iter().map(|b| if *b == b'/' || *b == b' ' { b'_' } else { *b })); p }, keep_mtime: false }
}

/// pair families of the property's quantifier; returns (family name, first, second request)
fn mutate(rng: &mut Rng, r: &Req) -> (&'static str, Req, Req) {
    let mut s = r.clone(); let mut f = r.clone();
    let allow: &[&str] = if r.pre { &P_ENV } else { &C_ENV };
    let name = match rng.below(22) {
        0 => { s.digest = hexdigest(rng); "digest" }
        1 => { s.plusplus = !s.plusplus; "plusplus" }
        2 => { s.lang = rng.below(14) as usize; "language" }
        3 => { if s.args.is_empty() { s.args.push(b"x".to_vec()); } let i = rng.below(s.args.len() as u64) as usize; s.args[i].push(b'!'); "one_arg" }
        4 => { if s.args.len() >= 2 { s.args.swap(0, 1); } "arg_order" }
        5 => { if s.args.len() >= 2 && !s.args[0].is_empty() { let b = s.args[0].pop().unwrap(); s.args[1].insert(0, b); } "arg_boundary" }
        6 => { if let Some(a) = s.args.first().cloned() { if a.len() >= 2 { let (x, y) = a.split_at(1); s.args[0] = x.to_vec(); s.args.insert(1, y.to_vec()); } } "arg_split" }
        7 => { if s.extra.is_empty() { s.extra.push(hexdigest(rng)); } else { s.extra[0] = hexdigest(rng); } "extra_digest" }
        8 => { s.env.push((rng.pick(allow).as_bytes().to_vec(), b"v".to_vec())); "env_added" }
        9 => { if let Some(e) = s.env.iter_mut().find(|(k, _)| allow.iter().any(|a| a.as_bytes() == &k[..])) { e.1.push(b'9'); } "env_value" }
        10 => { // split between a variable's name and value: (K, "a=b") vs ("K=a", "b")
            f.env.insert(0, (allow[0].as_bytes().to_vec(), b"a=b".to_vec())); s = f.clone();
            s.env[0] = ([allow[0].as_bytes(), b"=a"].concat(), b"b".to_vec()); "env_name_value_split" }
        11 => { s.env.push((b"UNRELATED_VAR".to_vec(), bytes(rng, 5, true))); "unrelated_env" }
        12 => { s.pp.push(b'z'); "payload" }
        13 => { // move the last argument to the front of the payload (C key) / to the end of the path (pre key)
            if let Some(a) = s.args.pop() { if s.pre { s.path.extend(a.iter().map(|b| if *b == b'/' || *b == 0 { b'_' } else { *b })); } else { let mut p = a; p.extend(&s.pp); s.pp = p; } } "arg_to_payload" }
        14 if !r.pre => { // un-delimited tag vs payload: "c" + "Header…" vs "cHeader" + "…"   (languages 0 = C, 3 = CHeader)
            f.lang = 0; f.args.clear(); f.extra.clear(); f.env.retain(|(k, _)| !C_ENV.iter().any(|a| a.as_bytes() == &k[..]));
            s = f.clone(); f.pp = [b"Header".as_ref(), &r.pp].concat(); s.lang = 3; "tag_payload_shift" }
        15 if !r.pre && !r.extra.is_empty() => { // un-delimited extra digests vs payload
            f.env.retain(|(k, _)| !C_ENV.iter().any(|a| a.as_bytes() == &k[..])); s = f.clone();
            let e = s.extra.pop().unwrap(); s.pp = [e.as_bytes(), &s.pp].concat(); "extra_payload_shift" }
        16 if r.pre => { s.path.push(b'2'); "input_path" }
        14 | 15 | 16 => { s.pp.insert(0, b'#'); "payload" }
        17 | 18 => { // the same bytes count, one byte different; for an input file: rewritten in place with its old modification time
            if s.pp.is_empty() { s.pp.push(b'a'); f.pp.push(b'b'); } else { let i = rng.below(s.pp.len() as u64) as usize; s.pp[i] = if s.pp[i] == b'q' { b'r' } else { b'q' }; }
            if r.pre { s.keep_mtime = true; "input_same_size_same_mtime" } else { "payload_same_size" } }
        19 | 20 => { // a search-path variable: an empty element (leading, trailing or doubled ':') means the current directory to the compiler
            let var = rng.pick(allow).as_bytes().to_vec(); let base = b"/x/inc".to_vec();
            f.env.retain(|(k, _)| k != &var); f.env.push((var.clone(), base.clone())); s = f.clone();
            let v2: Vec<u8> = match rng.below(3) { 0 => [b":".as_ref(), &base].concat(), 1 => [&base[..], b":"].concat(), _ => [&base[..], b"::/y"].concat() };
            if v2.ends_with(b"::/y") { f.env.last_mut().unwrap().1 = [&base[..], b":/y"].concat(); }
            s.env.last_mut().unwrap().1 = v2; "env_path_list_empty_element" }
        _ => "identical",
    };
    (name, f, s)
}

fn model_key(preimage_hex: &str) -> Option<String> {
    if preimage_hex == "none" { return None; }
    let h = blake3::hash(&unhex(preimage_hex));
    // `util::hex` writes the low nibble first
    Some(h.as_bytes().iter().map(|b| format!("{:x}{:x}", b & 0xf, b >> 4)).collect())
}

fn main() {
    let a: Vec<String> = std::env::args().collect();
    match a.get(1).map(|s| s.as_str()) {
        Some("gen") => {
            let (n, npairs): (u64, u64) = (a[2].parse().unwrap(), a[3].parse().unwrap());
            let d = a[7].clone(); std::fs::create_dir_all(&d).unwrap();
            let mut rng = Rng::from_env();
            let mut reqs = std::io::BufWriter::new(std::fs::File::create(&a[4]).unwrap());
            let mut keys = std::io::BufWriter::new(std::fs::File::create(&a[5]).unwrap());
            let mut emit = |r: &Req| -> Option<String> {
                let k = r.real(&d);
                let (idig, has_time) = if r.pre { (sccache::util::Digest::reader_sync(&r.pp[..]).unwrap(), r.pp.windows(8).any(|w| w == b"__TIME__")) } else { (String::new(), false) };
                writeln!(reqs, "{}", r.line(&d, &idig, has_time)).unwrap();
                writeln!(keys, "{}", k.clone().unwrap_or("none".into())).unwrap(); k };
            let mut fam: BTreeMap<String, (u64, u64)> = BTreeMap::new(); // family -> (pairs, pairs with equal keys)
            let mut fails: Vec<String> = vec![]; let mut samples = vec![]; let mut none_keys = 0u64;
            for i in 0..n { let r = gen_req(&mut rng, i % 3 == 2); if emit(&r).is_none() { none_keys += 1; } }
            // all 14 x 14 language pairs on one base request, both key kinds
            let mut pairs: Vec<(String, Req, Req)> = vec![];
            for pre in [false, true] { let base = gen_req(&mut rng, pre);
                for l1 in 0..14 { for l2 in 0..14 { let mut x = base.clone(); x.lang = l1; let mut y = base.clone(); y.lang = l2; pairs.push(("language_pair".into(), x, y)); } } }
            for i in 0..npairs { let r = gen_req(&mut rng, i % 3 == 2); let (f, x, y) = mutate(&mut rng, &r); pairs.push((f.to_string(), x, y)); }
            for (f, x, y) in &pairs {
                let (kx, ky) = (emit(x), emit(y));
                let e = fam.entry(f.clone()).or_insert((0, 0)); e.0 += 1;
                let same_key = kx.is_some() && kx == ky; if same_key { e.1 += 1; }
                let same_comp = x.components() == y.components();
                if samples.len() < 4 && !same_comp { samples.push(format!("{}: {} || {}", f, x.line(&d, "", false), y.line(&d, "", false))); }
                if kx.is_none() || ky.is_none() { continue; }
                if same_key != same_comp {
                    let kind = if same_key { "alias" } else { "unstable" };
                    let detail = if same_key && x.lang != y.lang { format!("family={} languages {:?}/{:?} share a key", f, LANGS[x.lang], LANGS[y.lang]) } else { format!("family={}", f) };
                    fails.push(format!("{{\"kind\":\"{}\",\"detail\":\"{}\",\"ops\":[\"{}\",\"{}\"]}}", kind, detail, x.line(&d, "", false), y.line(&d, "", false)));
                }
            }
            // ---- populations: many variants of ONE component of one base request; distinct variants must get pairwise distinct keys
            //      (finds aliasing that needs a particular *pattern* of changes, which a random pair hardly ever hits)
            let mut pops: Vec<(&'static str, Vec<Req>)> = vec![];
            {
                // every placement of 1..3 directory separators in one 14-byte name: same bytes, different paths
                let base = { let mut b = gen_req(&mut rng, true); b.pp = b"int x;\n".to_vec(); b };
                let name = b"abcdefghijklmn"; let mut v = vec![];
                let pos: Vec<usize> = (1..name.len()).collect();
                let mut sets: Vec<Vec<usize>> = vec![];
                for &i in &pos { sets.push(vec![i]); for &j in pos.iter().filter(|j| **j > i) { sets.push(vec![i, j]); for &k in pos.iter().filter(|k| **k > j) { sets.push(vec![i, j, k]); } } }
                for set in sets { let mut p = b"pop/".to_vec(); for (i, c) in name.iter().enumerate() { if set.contains(&i) { p.push(b'/'); } p.push(*c); }
                    let mut full = d.as_bytes().to_vec(); full.push(b'/'); full.extend(&p); let full = std::path::PathBuf::from(OsString::from_vec(full));
                    std::fs::create_dir_all(full.parent().unwrap()).unwrap();
                    let mut r = base.clone(); r.path = p; v.push(r); }
                pops.push(("input_path_separators", v));
                // every split of one 10-byte string into 1..3 arguments, for both keys
                for pre in [false, true] {
                    let base = gen_req(&mut rng, pre); let s = b"-DAB=xy-Iz"; let mut v = vec![];
                    for i in 0..=s.len() { for j in i..=s.len() {
                        let parts: Vec<Vec<u8>> = if i == 0 && j == 0 { vec![s.to_vec()] } else if i == 0 || i == j { continue } else if j == s.len() { vec![s[..i].to_vec(), s[i..].to_vec()] } else { vec![s[..i].to_vec(), s[i..j].to_vec(), s[j..].to_vec()] };
                        let mut r = base.clone(); r.args = parts; v.push(r); } }
                    pops.push((if pre { "argument_splits_pre" } else { "argument_splits" }, v));
                    // every split of one string into (name, value) of an allow-listed variable plus the bare prefix
                    let allow: &[&str] = if pre { &P_ENV } else { &C_ENV }; let mut v = vec![];
                    for a in allow { for val in [&b""[..], b"1", b"=1", b"1=", b"a=b"] { let mut r = base.clone(); r.env = vec![(a.as_bytes().to_vec(), val.to_vec())]; v.push(r); } }
                    pops.push((if pre { "allowed_env_pre" } else { "allowed_env" }, v));
                }
            }
            let mut pop_sizes: BTreeMap<String, u64> = BTreeMap::new();
            for (f, v) in &pops {
                let mut seen: BTreeMap<String, &Req> = BTreeMap::new(); pop_sizes.insert(f.to_string(), v.len() as u64);
                for r in v {
                    let k = match emit(r) { Some(k) => k, None => continue };
                    if let Some(o) = seen.get(&k) { if o.components() != r.components() {
                        if !fails.iter().any(|x| x.contains(&format!("population={}", f))) {
                            fails.push(format!("{{\"kind\":\"alias\",\"detail\":\"population={}: two of {} variants of one component share a key\",\"ops\":[\"{}\",\"{}\"]}}", f, v.len(), o.line(&d, "", false), r.line(&d, "", false))); } } }
                    else { seen.insert(k, r); }
                }
            }
            let famj = fam.iter().map(|(k, v)| format!("\"{}\":[{},{}]", k, v.0, v.1)).collect::<Vec<_>>().join(",");
            std::fs::write(&a[6], format!("{{\"requests\":{},\"pairs\":{},\"none_keys\":{},\"populations\":{{{}}},\"families\":{{{}}},\"monitor_failures\":[{}],\"samples\":[{}]}}",
                n, pairs.len(), none_keys, pop_sizes.iter().map(|(k, v)| format!("\"{}\":{}", k, v)).collect::<Vec<_>>().join(","), famj, fails.join(","), samples.iter().map(|s| format!("\"{}\"", s)).collect::<Vec<_>>().join(","))).unwrap();
        }
        Some("cmp") => {
            let rq = std::fs::read_to_string(&a[2]).unwrap(); let rk = std::fs::read_to_string(&a[3]).unwrap(); let mp = std::fs::read_to_string(&a[4]).unwrap();
            let (rq, rk, mp): (Vec<&str>, Vec<&str>, Vec<&str>) = (rq.lines().collect(), rk.lines().collect(), mp.lines().collect());
            let mut bad = 0; let mut first = vec![]; let mut distinct = std::collections::BTreeSet::new();
            if rq.len() != rk.len() || rq.len() != mp.len() { println!("MISMATCH line counts {} {} {}", rq.len(), rk.len(), mp.len()); bad += 1; }
            for i in 0..rq.len().min(rk.len()).min(mp.len()) {
                let mk = model_key(mp[i]).unwrap_or("none".into());
                distinct.insert(mk.clone());
                if mk != rk[i] { bad += 1; if first.len() < 3 { first.push(format!("MISMATCH line {}: {}\\n  real key {}\\n  model key {} (pre-image {})", i + 1, rq[i], rk[i], mk, mp[i])); } }
            }
            for f in &first { println!("{}", f.replace("\\n", "\n")); }
            println!("distinct_keys: {}", distinct.len());
            println!("mismatches: {}", bad);
        }
        Some("one") => {
            // parse a request line of the protocol and print the real key
            let t: Vec<&str> = a[2].split_whitespace().collect();
            let unl = |x: &str| -> Vec<Vec<u8>> { if x == "-" { vec![] } else { x.split(',').map(|e| if e == "e" { vec![] } else { unhex(e) }).collect() } };
            let pre = t[0] == "pre"; let o = if pre { 2 } else { 0 };
            let lang = LANGS.iter().position(|l| format!("{:?}", l) == t[o + 2]).expect("language");
            let env: Vec<(Vec<u8>, Vec<u8>)> = unl(t[o + 5]).into_iter().zip(unl(t[o + 6])).collect();
            let extra: Vec<String> = unl(t[o + 4]).into_iter().map(|e| String::from_utf8(e).unwrap()).collect();
            let digest = String::from_utf8(unhex(t[o])).unwrap();
            if pre {
                let path = unhex(t[o + 7]); let full = std::path::PathBuf::from(OsString::from_vec(path));
                let args: Vec<OsString> = unl(t[o + 3]).into_iter().map(OsString::from_vec).collect();
                let envo: Vec<(OsString, OsString)> = env.into_iter().map(|(k, v)| (OsString::from_vec(k), OsString::from_vec(v))).collect();
                let cfg = sccache::config::PreprocessorCacheModeConfig { ignore_time_macros: t[1] == "1", ..Default::default() };
                println!("{:?}", preprocessor_cache_entry_hash_key(&digest, LANGS[lang], &args, &extra, &envo, &full, t[o + 1] == "1", cfg).ok().flatten());
            } else {
                let r = Req { pre: false, ign: false, digest, plusplus: t[1] == "1", lang, args: unl(t[3]), extra, env, pp: if t[7] == "-" { vec![] } else { unhex(t[7]) }, path: vec![], keep_mtime: false };
                println!("{}", r.real("/nonexistent").unwrap());
            }
        }
        _ => { eprintln!("usage"); std::process::exit(2); }
    }
}
