//! C20 (shutdown half): the real `SccacheServer::run` — accept loop, `ShutdownOrInactive`, `WaitUntilZero`, the 10 s drain — driven
//! on an **in-memory listener** (hook H8: `net::Acceptor`) inside a current-thread tokio runtime whose clock is paused, so that
//! idle periods of seconds to minutes and the grace period pass in microseconds and every event happens at an exact logical
//! millisecond.  A script of timed events (connect / request on a connection / stop request on a connection / close a
//! connection) runs as a task of the same runtime and speaks the real wire protocol (length-delimited bincode `Request` /
//! `Response`).  A 1 ms ticker records the logical time; what it shows when `run` returns is the exit time.
//! Trace for `modeld shutdown` (`ShutM.step`); monitors (implementation against the statement, independent of the model):
//!   exit_before_idle_period, exit_without_cause, grace_not_granted, exit_after_grace, served_after_exit.
//! usage: h_server gen <n_cases> <trace_out> <summary_out>
use sccache::server::{DistClientContainer, SccacheServer};
use sccache::verif::*;
use std::collections::BTreeMap;
use std::io::Write;
use std::sync::atomic::{AtomicBool, AtomicU64, Ordering};
use std::sync::{Arc, Mutex};
use std::time::Duration;
use tokio::io::{AsyncReadExt, AsyncWriteExt, DuplexStream};
use verif_harness::*;

struct MemListener { rx: tokio::sync::Mutex<tokio::sync::mpsc::UnboundedReceiver<DuplexStream>> }
impl Acceptor for MemListener {
    type Socket = DuplexStream;
    fn accept(&self) -> impl std::future::Future<Output = tokio::io::Result<DuplexStream>> + Send {
        async move {
            match self.rx.lock().await.recv().await { Some(s) => Ok(s), None => std::future::pending().await }
        }
    }
    fn local_addr(&self) -> tokio::io::Result<Option<NetSocketAddr>> { Ok(None) }
}

#[derive(Clone, Debug)]
enum Op { Conn, Req(u64, u8), Stop(u64), Close(u64) }

async fn exchange(s: &mut DuplexStream, req: &Request) -> Result<Response, String> {
    let body = bincode::serialize(req).map_err(|e| e.to_string())?;
    let mut frame = (body.len() as u32).to_be_bytes().to_vec(); frame.extend_from_slice(&body);
    s.write_all(&frame).await.map_err(|e| format!("write: {}", e))?;
    let mut len = [0u8; 4]; s.read_exact(&mut len).await.map_err(|e| format!("read: {}", e))?;
    let mut buf = vec![0u8; u32::from_be_bytes(len) as usize]; s.read_exact(&mut buf).await.map_err(|e| format!("read: {}", e))?;
    bincode::deserialize::<Response>(&buf).map_err(|e| format!("decode: {}", e))
}

struct CaseResult { outs: Vec<String>, exit_ms: Option<u64>, at_horizon: bool, timed_out: bool }

fn run_case(t_ms: u64, script: &[(u64, Op)], horizon: u64, dir: &std::path::Path) -> CaseResult {
    let rt = tokio::runtime::Builder::new_current_thread().enable_all().start_paused(true).build().unwrap();
    let (tx, rx) = tokio::sync::mpsc::unbounded_channel::<DuplexStream>();
    let storage = Arc::new(DiskCache::new(dir, 1 << 20, rt.handle(), sccache::config::PreprocessorCacheModeConfig::default(), CacheMode::ReadWrite));
    let client = JobClient::new_num(1);
    let handle = rt.handle().clone();
    let mut srv = SccacheServer::<MemListener, ProcessCommandCreator>::with_listener(MemListener { rx: tokio::sync::Mutex::new(rx) }, rt, client, DistClientContainer::new_disabled(), storage);
    srv.set_idle_timeout(Duration::from_millis(t_ms));
    let now = Arc::new(AtomicU64::new(0)); let at_horizon = Arc::new(AtomicBool::new(false));
    let outs: Arc<Mutex<Vec<String>>> = Arc::new(Mutex::new(vec![]));
    let (htx, hrx) = tokio::sync::oneshot::channel::<()>();
    { let now = now.clone();
      handle.spawn(async move { let start = tokio::time::Instant::now(); let mut k = 0u64;
          loop { k += 1; tokio::time::sleep_until(start + Duration::from_millis(k)).await; now.store(k, Ordering::SeqCst); } }); }
    { let outs = outs.clone(); let at_horizon = at_horizon.clone(); let script = script.to_vec();
      handle.spawn(async move {
          let start = tokio::time::Instant::now(); let mut conns: BTreeMap<u64, DuplexStream> = BTreeMap::new(); let mut next = 0u64;
          for (t, op) in script {
              tokio::time::sleep_until(start + Duration::from_millis(t)).await;
              let o = match op {
                  Op::Conn => { let id = next; next += 1; let (a, b) = tokio::io::duplex(1 << 16);
                      if tx.send(b).is_ok() { conns.insert(id, a); format!("accepted {}", id) } else { "refused".into() } }
                  Op::Req(c, kind) => match conns.get_mut(&c) { None => "noconn".into(), Some(s) => {
                      let rq = match kind % 3 { 0 => Request::ZeroStats, 1 => Request::GetStats, _ => Request::DistStatus };
                      match exchange(s, &rq).await { Ok(Response::ZeroStats) | Ok(Response::Stats(_)) | Ok(Response::DistStatus(_)) => "served".into(), Ok(r) => format!("unexpected-response {:?}", r).chars().take(60).collect(), Err(e) => format!("failed {}", e) } } },
                  Op::Stop(c) => match conns.get_mut(&c) { None => "noconn".into(), Some(s) => match exchange(s, &Request::Shutdown).await { Ok(Response::ShuttingDown(_)) => "served".into(), Ok(r) => format!("unexpected-response {:?}", r).chars().take(60).collect(), Err(e) => format!("failed {}", e) } },
                  Op::Close(c) => if conns.remove(&c).is_some() { "closed".into() } else { "noconn".into() },
              };
              outs.lock().unwrap().push(o);
          }
          tokio::time::sleep_until(start + Duration::from_millis(horizon)).await;
          at_horizon.store(true, Ordering::SeqCst); let _ = htx.send(());
          std::future::pending::<()>().await;
      }); }
    let r = srv.run(async move { let _ = hrx.await; });
    let hz = at_horizon.load(Ordering::SeqCst);
    let outs = outs.lock().unwrap().clone();
    // `run` returns Err(TimedOut) when the grace period ran out with connections still open: that is an exit, too
    let timed_out = match &r { Err(e) if e.kind() == std::io::ErrorKind::TimedOut => true, Err(e) => { eprintln!("run failed: {}", e); false } Ok(()) => false };
    CaseResult { outs, exit_ms: if hz { None } else { Some(now.load(Ordering::SeqCst)) }, at_horizon: hz, timed_out }
}

fn gen_case(rng: &mut Rng) -> (u64, Vec<(u64, Op)>, u64) {
    let grace = 10_000u64;
    let t_ms = match rng.below(16) { 0 | 1 => 0, 2 => 1000, 3..=8 => 1000 * (3 + rng.below(8)), 9..=13 => 1000 * (10 + rng.below(20)), 14 => 1000 * (30 + rng.below(90)), _ => 1000 * (120 + rng.below(500)) };
    let n = 4 + rng.below(14); let mut used = std::collections::BTreeSet::new(); used.insert(0u64);
    let mut t = 0u64; let mut ops = vec![]; let mut nconn = 0u64; let mut stop_at: Option<u64> = None; let mut last_req = 0u64;
    for i in 0..n {
        // the gap: short, a few seconds, just before / just after the idle deadline counted from the last request, just before / after the end of the grace period
        let mut cand = match rng.below(12) {
            0..=3 => t + 1 + rng.below(if stop_at.is_some() { 3000 } else { 900.max(t_ms / 5) }),
            4 | 5 => t + 1 + rng.below(if t_ms > 2000 { t_ms + 500 } else { 3000 }),
            6 if t_ms > 0 => (last_req + t_ms).saturating_sub(1 + rng.below(3)),
            7 if t_ms > 0 => last_req + t_ms + 1 + rng.below(3),
            8 => stop_at.unwrap_or(last_req + t_ms) + grace - 1 - rng.below(3),
            9 => stop_at.unwrap_or(last_req + t_ms) + grace + 1 + rng.below(3),
            10 => stop_at.unwrap_or(last_req + t_ms) + 1 + rng.below(grace - 2),
            _ => t + 1 + rng.below(12_000),
        };
        if cand <= t { cand = t + 1 + rng.below(50); }
        while used.contains(&(cand % 1000)) { cand += 1; }
        used.insert(cand % 1000); t = cand;
        let op = if nconn == 0 || (i < 2 && rng.chance(2, 3)) { Op::Conn } else {
            let c = if rng.chance(9, 10) { rng.below(nconn) } else { nconn + rng.below(2) };
            match rng.below(12) { 0 | 1 => Op::Conn, 2..=7 => Op::Req(c, rng.below(3) as u8), 8 => Op::Stop(c), _ => Op::Close(c) } };
        if matches!(op, Op::Conn) { nconn += 1; }
        if matches!(op, Op::Req(..)) { last_req = t; }
        if matches!(op, Op::Stop(_)) && stop_at.is_none() { stop_at = Some(t); last_req = t; }
        ops.push((t, op));
    }
    let horizon = t + t_ms + grace + 5000;
    (t_ms, ops, horizon)
}

fn main() {
    let a: Vec<String> = std::env::args().collect();
    if a.get(1).map(|s| s.as_str()) != Some("gen") { eprintln!("usage: h_server gen <n_cases> <trace_out> <summary_out>"); std::process::exit(2); }
    let n_cases: u64 = a[2].parse().unwrap(); let mut rng = Rng::from_env();
    let mut tr = std::io::BufWriter::new(std::fs::File::create(&a[3]).unwrap());
    let tmp = tempfile::tempdir().unwrap(); let grace = 10_000u64;
    let mut fails: Vec<String> = vec![]; let mut samples = vec![];
    let (mut steps, mut exits_idle, mut exits_stop, mut exits_with_open, mut exits_on_close, mut still_running, mut refused, mut served_in_drain, mut drain_timeouts) = (0u64, 0u64, 0u64, 0u64, 0u64, 0u64, 0u64, 0u64, 0u64);
    for case in 0..n_cases {
        let (t_ms, script, horizon) = gen_case(&mut rng);
        let r = run_case(t_ms, &script, horizon, &tmp.path().join(format!("c{}", case % 4)));
        let mut lines = vec![format!("new {}", t_ms)];
        let render = |t: u64, op: &Op| match op { Op::Conn => format!("conn {}", t), Op::Req(c, _) => format!("req {} {}", t, c), Op::Stop(c) => format!("stop {} {}", t, c), Op::Close(c) => format!("close {} {}", t, c) };
        for (i, o) in r.outs.iter().enumerate() { lines.push(format!("{} | {}", render(script[i].0, &script[i].1), o)); steps += 1; }
        let end = match r.exit_ms { Some(e) => format!("exit {}", e), None => "running".into() };
        lines.push(format!("end {} | {}", horizon, end));
        let skipped: Vec<String> = script[r.outs.len()..].iter().map(|(t, op)| render(*t, op)).collect();
        // ---- monitor: the statement itself, from the implementation's answers alone.  `a` = last request arrival while the server was
        // (by the statement) still obliged to serve; the drain may begin at `d` = first stop request before a + T, else a + T, and not before
        let mut open: std::collections::BTreeSet<u64> = Default::default(); let mut next = 0u64; let mut a_t = 0u64; let mut d: Option<(u64, &str)> = None;
        let mut open_at_d: Option<usize> = None; let mut first_refused: Option<u64> = None;
        for (i, o) in r.outs.iter().enumerate() { let (t, op) = &script[i];
            let serving = d.is_none() && (t_ms == 0 || *t < a_t + t_ms);
            if d.is_none() && !serving { d = Some((a_t + t_ms, "idle")); open_at_d = Some(open.len()); }
            match op {
                Op::Conn => { if o.starts_with("accepted") { open.insert(next); } else { if first_refused.is_none() { first_refused = Some(*t); refused += 1; }
                        if serving { fails.push(fail_json("refused_while_serving", &format!("connection attempt at {} ms refused although the last request arrived at {} ms, the idle period is {} ms and no stop was requested", t, a_t, t_ms), &[], "")); } }
                    next += 1; }
                Op::Req(_, _) => if o == "served" { if serving { a_t = *t; } else { served_in_drain += 1; } }
                Op::Stop(_) => if o == "served" && serving { d = Some((*t, "stop")); open_at_d = Some(open.len()); }
                Op::Close(c) => if o == "closed" { open.remove(c); }
            } }
        if d.is_none() && t_ms != 0 { d = Some((a_t + t_ms, "idle")); open_at_d = Some(open.len()); }
        let ops_txt: Vec<String> = lines.iter().cloned().chain(skipped.iter().map(|s| format!("{} | (not reached: the server had exited)", s))).collect();
        for f in fails.iter_mut() { if f.contains("\"ops\":[]") { *f = f.replace("\"ops\":[]", &format!("\"ops\":[{}]", ops_txt.iter().map(|x| jstr(x)).collect::<Vec<_>>().join(","))); } }
        match (r.exit_ms, d) {
            (Some(e), None) => fails.push(fail_json("exit_without_cause", &format!("idle timeout disabled, no stop request, yet the server exited at {} ms", e), &ops_txt, "")),
            (Some(e), Some((dt, why))) => {
                if why == "idle" { exits_idle += 1; } else { exits_stop += 1; }
                if !open.is_empty() { exits_with_open += 1; } else { exits_on_close += 1; }
                if e + 1 < dt { fails.push(fail_json(if why == "idle" { "exit_before_idle_period" } else { "exit_before_stop" }, &format!("the server exited at {} ms; last request arrival at {} ms, idle period {} ms, drain not due before {} ms ({})", e, a_t, t_ms, dt, why), &ops_txt, "")); }
                else if !open.is_empty() && e + 1 < dt + grace { fails.push(fail_json("grace_not_granted", &format!("drain began at {} ms ({}) with connection(s) {:?} still open; the server exited at {} ms, before the {} ms grace period was over", dt, why, open, e, grace), &ops_txt, "")); }
                if e > dt + grace + 1 { fails.push(fail_json("exit_after_grace", &format!("drain due at {} ms ({}), the server exited only at {} ms (grace {} ms)", dt, why, e, grace), &ops_txt, "")); }
                else if open_at_d == Some(0) && e > dt + 1 { fails.push(fail_json("exit_delayed_without_connections", &format!("drain due at {} ms ({}) with no connection open, the server exited only at {} ms", dt, why, e), &ops_txt, "")); }
            }
            (None, Some((dt, why))) => { still_running += 1; fails.push(fail_json(if why == "idle" { "idle_exit_missing" } else { "stop_did_not_terminate" }, &format!("drain due at {} ms ({}), the server was still running at the horizon {} ms", dt, why, horizon), &ops_txt, "")); }
            (None, None) => still_running += 1,
        }
        for o in &r.outs { if o.starts_with("failed") || o.starts_with("unexpected") { fails.push(fail_json("request_not_answered", &format!("an open connection got {:?} while the server was alive", o), &ops_txt, "")); break; } }
        for l in &lines { writeln!(tr, "{}", l).unwrap(); }
        if samples.len() < 3 { samples.push(lines.join(" ; ")); }
        let _ = r.at_horizon; if r.timed_out { drain_timeouts += 1; }
    }
    tr.flush().unwrap();
    let mut out = std::fs::File::create(&a[4]).unwrap();
    write!(out, "{{\"cases\":{},\"steps\":{},\"exits_by_idle\":{},\"exits_after_stop\":{},\"exits_with_open_connection\":{},\"exits_when_last_connection_closed_or_none_open\":{},\"still_running_at_horizon\":{},\"cases_with_refused_connect\":{},\"cases_served_during_drain\":{},\"run_returned_timed_out\":{},\"monitor_failures\":[{}],\"samples\":[{}]}}",
        n_cases, steps, exits_idle, exits_stop, exits_with_open, exits_on_close, still_running, refused, served_in_drain, drain_timeouts, fails.join(","), samples.iter().map(|s| jstr(s)).collect::<Vec<_>>().join(",")).unwrap();
}
