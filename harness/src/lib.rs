//! Shared helpers of the correspondence harness: one PRNG (every random choice derives from VERIF_SEED),
//! hex, and small output helpers.
pub struct Rng(pub u64);
impl Rng {
    pub fn from_env() -> Rng {
        let s: u64 = std::env::var("VERIF_SEED").ok().and_then(|x| x.parse().ok()).unwrap_or(1);
        Rng::new(s)
    }
    pub fn new(seed: u64) -> Rng { let mut r = Rng(seed.wrapping_mul(0x9E3779B97F4A7C15) ^ 0x2545F4914F6CDD1D); r.next(); r }
    pub fn next(&mut self) -> u64 {
        // splitmix64
        self.0 = self.0.wrapping_add(0x9E3779B97F4A7C15);
        let mut z = self.0;
        z = (z ^ (z >> 30)).wrapping_mul(0xBF58476D1CE4E5B9);
        z = (z ^ (z >> 27)).wrapping_mul(0x94D049BB133111EB);
        z ^ (z >> 31)
    }
    pub fn below(&mut self, n: u64) -> u64 { if n == 0 { 0 } else { self.next() % n } }
    pub fn chance(&mut self, num: u64, den: u64) -> bool { self.below(den) < num }
    pub fn pick<'a, T>(&mut self, xs: &'a [T]) -> &'a T { &xs[self.below(xs.len() as u64) as usize] }
    pub fn fork(&mut self) -> Rng { Rng::new(self.next()) }
}
pub fn hex(b: &[u8]) -> String { b.iter().map(|x| format!("{:02x}", x)).collect() }
pub fn hex_e(b: &[u8]) -> String { if b.is_empty() { "e".into() } else { hex(b) } }
pub fn unhex(s: &str) -> Vec<u8> { (0..s.len() / 2).map(|i| u8::from_str_radix(&s[2 * i..2 * i + 2], 16).unwrap()).collect() }
pub fn env_u64(name: &str, default: u64) -> u64 { std::env::var(name).ok().and_then(|x| x.parse().ok()).unwrap_or(default) }
/// silence the default panic hook (panics of the code under test are observations)
pub fn quiet_panics() { if std::env::var_os("VERIF_LOUD_PANICS").is_none() { std::panic::set_hook(Box::new(|_| {})); } }
/// JSON string literal (with quotes) for arbitrary text
pub fn jstr(s: &str) -> String {
    let mut o = String::from("\"");
    for c in s.chars() {
        match c { '"' => o.push_str("\\\""), '\\' => o.push_str("\\\\"), '\n' => o.push_str("\\n"), '\t' => o.push_str("\\t"), '\r' => o.push_str("\\r"),
            c if (c as u32) < 0x20 => o.push_str(&format!("\\u{:04x}", c as u32)), c => o.push(c) }
    }
    o.push('"'); o
}
/// one monitor failure as a JSON object: kind, detail, ops (list of strings) and extra raw fields
pub fn fail_json(kind: &str, detail: &str, ops: &[String], extra: &str) -> String {
    format!("{{\"kind\":{},\"detail\":{},\"ops\":[{}]{}}}", jstr(kind), jstr(detail), ops.iter().map(|o| jstr(o)).collect::<Vec<_>>().join(","), extra)
}

/// raise the descriptor limit to the hard limit (crash steps deliberately leak the descriptors of forgotten temp files)
pub fn raise_nofile() {
    unsafe { let mut r = libc::rlimit { rlim_cur: 0, rlim_max: 0 };
        if libc::getrlimit(libc::RLIMIT_NOFILE, &mut r) == 0 { r.rlim_cur = r.rlim_max; libc::setrlimit(libc::RLIMIT_NOFILE, &r); } }
}
